"""C16 -- reverse() traces the same geometry backwards and is an involution."""
import itertools
from copy import copy
from . import pathgen as G

ID = "C16"
TOL = (1e-6, 1e-9)
BOUNDS = {
    "quick": "paths of <=3 subpaths / <=6 segments over all segment kinds: open and closed, zero-length and non-zero closes, subpaths that start without their own move "
             "(after a close; fragment without leading move), move-only and single-segment subpaths; histories: whole-path reverse, reverse twice, each subpath view, "
             "view twice, reverse interleaved with a symbolic matrix; coordinates and arc sweeps symbolic",
    "thorough": "all command sequences of length <=4 after the leading move plus the structured family above with longer subpaths",
}
OUTSIDE = ["path fragments whose first segment has no start point (their reversal has no end point to store)", "arc point(t) symmetry (needs Arc.get_start_t); arcs are compared by stored points and negated sweep", "paths longer than the bound"]
STUBS = ["Arc._svg_parameterize -> recorder that stores start/end and a symbolic sweep (arc geometry is C05)"]
ASSUMPTIONS = ["oracle: reversal written on abstract segment records: subpaths in reverse order, each drawn segment reversed, a closed subpath keeps its close at the end"]


def split_subpaths(osegs):
    """SVG subpaths of the oracle segment list: a new subpath at every Move and after every Close"""
    subs = []
    cur = None
    for o in osegs:
        if o["kind"] == "Move":
            if cur is not None:
                subs.append(cur)
            cur = dict(move=o, drawn=[], closed=None)
        else:
            if cur is None:
                cur = dict(move=None, drawn=[], closed=None)
            if o["kind"] == "Close":
                cur["closed"] = o
                subs.append(cur)
                cur = None
            else:
                cur["drawn"].append(o)
    if cur is not None:
        subs.append(cur)
    return subs


def rev_seg(o):
    r = dict(o)
    r["start"], r["end"] = o["end"], o["start"]
    if o["kind"] == "Cubic":
        r["c1"], r["c2"] = o["c2"], o["c1"]
    if o["kind"] == "Arc":
        r["sweep"] = 0 - o["sweep"]
    return r


def o_reverse_sub(sub):
    """drawn segments (Close included) of the reversed subpath"""
    out = [rev_seg(d) for d in reversed(sub["drawn"])]
    if sub["closed"] is not None:
        out.append(rev_seg(sub["closed"]))
    return out


def o_reverse(osegs):
    out = []
    for sub in reversed(split_subpaths(osegs)):
        out.extend(o_reverse_sub(sub))
    return out


def drawn(S, segs):
    return [s for s in segs if not isinstance(s, S.Move)]


def seg_eq(ctx, S, s, o):
    if type(s).__name__ != G.KIND_CLASS[o["kind"]]:
        return False
    conds = [G.pt_eq(ctx, s.start, o["start"]), G.pt_eq(ctx, s.end, o["end"])]
    if o["kind"] == "Quad":
        conds.append(G.pt_eq(ctx, s.control, o["c"]))
    elif o["kind"] == "Cubic":
        conds.append(G.pt_eq(ctx, s.control1, o["c1"]))
        conds.append(G.pt_eq(ctx, s.control2, o["c2"]))
    elif o["kind"] == "Arc":
        conds.append(ctx.eq(s.sweep, o["sweep"]))
    return ctx.and_(*conds)


def claim_drawn(ctx, S, tag, segs, odrawn):
    d = drawn(S, segs)
    ok = len(d) == len(odrawn) and all(type(s).__name__ == G.KIND_CLASS[o["kind"]] for s, o in zip(d, odrawn))
    ctx.claim(tag + " drawn kinds/order", ok, lambda: "%s vs %s" % ([type(s).__name__ for s in d], [o["kind"] for o in odrawn]))
    if not ok:
        return
    for i, (s, o) in enumerate(zip(d, odrawn)):
        ctx.claim("%s drawn%d %s" % (tag, i, o["kind"]), seg_eq(ctx, S, s, o))


def claim_connected(ctx, S, tag, segs):
    conds = []
    for i in range(1, len(segs)):
        a, b = segs[i - 1], segs[i]
        if isinstance(b, S.Move):
            continue   # a move's start point is bookkeeping, not geometry
        if a.end is None or b.start is None:
            conds.append(False)
        else:
            conds.append(G.pt_eq(ctx, b.start, (a.end.x, a.end.y)))
    if conds:
        ctx.claim(tag + " connected", ctx.and_(*conds))


def snapshot(ctx, S, segs):
    out = []
    for s in segs:
        rec = dict(kind=type(s).__name__, start=(s.start.x, s.start.y) if s.start is not None else None,
                   end=(s.end.x, s.end.y) if s.end is not None else None)
        if isinstance(s, S.QuadraticBezier):
            rec["c"] = (s.control.x, s.control.y)
        if isinstance(s, S.CubicBezier):
            rec["c1"] = (s.control1.x, s.control1.y)
            rec["c2"] = (s.control2.x, s.control2.y)
        if isinstance(s, S.Arc):
            rec["sweep"] = s.sweep
        out.append(rec)
    return out


def snap_eq(ctx, a, b, skip_first_start=True):
    if len(a) != len(b) or any(x["kind"] != y["kind"] for x, y in zip(a, b)):
        return False
    conds = []
    for i, (x, y) in enumerate(zip(a, b)):
        for k in ("start", "end", "c", "c1", "c2"):
            if k in x:
                if k == "start" and i == 0 and skip_first_start:
                    continue
                if x[k] is None or y[k] is None:
                    conds.append((x[k] is None) == (y[k] is None))
                else:
                    conds.append(ctx.and_(ctx.eq(x[k][0], y[k][0]), ctx.eq(x[k][1], y[k][1])))
        if "sweep" in x:
            conds.append(ctx.eq(x["sweep"], y["sweep"]))
    return ctx.and_(*conds) if conds else True


def build(ctx, cmds):
    S = ctx.S
    gen = G.Gen(ctx)
    pieces, abstract = G.build(ctx, [tuple(c) for c in cmds], gen=gen)
    sweeps = {}

    def sweep_fn(i):
        if i not in sweeps:
            sweeps[i] = ctx.real("sw%d" % i, -6, 6)
        return sweeps[i]
    with G.ArcStub(S, sweep_fn):
        p = S.Path(" ".join(pieces))
    osegs = G.Interp().run(abstract)
    k = 0
    for o in osegs:
        if o["kind"] == "Arc":
            o["sweep"] = sweeps[k]
            k += 1
    return p, osegs


def h_reverse(ctx, cmds, mode="whole"):
    S = ctx.S
    p, osegs = build(ctx, cmds)
    before = snapshot(ctx, S, list(p))
    if mode == "whole":
        q = copy(p)
        q.reverse()
        claim_drawn(ctx, S, "reverse", list(q), o_reverse(osegs))
        claim_connected(ctx, S, "reverse", list(q))
        ctx.claim("copy untouched", snap_eq(ctx, snapshot(ctx, S, list(p)), before, False))
        q.reverse()
        # moves carry no geometry of their own (a subpath that began without one gets one when it is re-positioned):
        # the drawn segments, with their start points, must be the original ones
        ctx.claim("reverse twice restores", snap_eq(ctx, snapshot(ctx, S, drawn(S, list(q))), snapshot(ctx, S, drawn(S, list(p))), False))
        if not any(c[0] in "Zz" for c in cmds):
            ctx.claim("reverse twice restores moves too", snap_eq(ctx, snapshot(ctx, S, list(q)), before))
    elif mode == "matrix":
        m = S.Matrix(*ctx.reals("ma mb mc md me mf", -100, 100))
        a = copy(p)
        a.reverse()
        a *= m
        a.reify()
        b = copy(p)
        b *= m
        b.reify()
        b.reverse()
        ctx.claim("reverse commutes with transform", snap_eq(ctx, snapshot(ctx, S, list(a)), snapshot(ctx, S, list(b))))
    elif mode == "view_matrix":
        mv = ctx.reals("ma mb mc md me mf", -100, 100)
        m = S.Matrix(*mv)

        def ap(pt):
            return (mv[0] * pt[0] + mv[2] * pt[1] + mv[4], mv[1] * pt[0] + mv[3] * pt[1] + mv[5])
        det = mv[0] * mv[3] - mv[1] * mv[2]
        ctx.assume(ctx.xgt(det, 0))
        subs = split_subpaths(osegs)
        n = p.count_subpaths()
        if n != len(subs):
            return
        for i in range(n):
            q = copy(p)
            sp = q.subpath(i)
            lo, hi = sp._start, sp._end
            sp.reverse()
            q *= m
            q.reify()
            inside = list(q)[lo:hi + 1]
            exp = []
            for o in o_reverse_sub(subs[i]):
                e = dict(o)
                for k in ("start", "end", "c", "c1", "c2"):
                    if k in e and e[k] is not None:
                        e[k] = ap(e[k])
                exp.append(e)
            claim_drawn(ctx, S, "view%d then transform" % i, inside, exp)
    else:
        subs = split_subpaths(osegs)
        n = p.count_subpaths()
        ctx.claim("subpath count", n == len(subs))
        if n != len(subs):
            return
        for i in range(n):
            q = copy(p)
            sp = q.subpath(i)
            lo, hi = sp._start, sp._end
            sp.reverse()
            segs = list(q)
            inside = segs[lo:hi + 1]
            claim_drawn(ctx, S, "view%d" % i, inside, o_reverse_sub(subs[i]))
            # everything outside the view keeps its geometry (start of the next segment may be re-linked to the new end)
            snap = snapshot(ctx, S, segs)
            conds = []
            for j, (x, y) in enumerate(zip(snap, before)):
                if lo <= j <= hi:
                    continue
                sub = snap_eq(ctx, [x], [y], skip_first_start=(j == hi + 1 or j == 0))
                conds.append(sub)
            if conds:
                ctx.claim("view%d leaves other subpaths" % i, ctx.and_(*conds))
            ctx.claim("view%d same length" % i, len(segs) == len(before))
            sp2 = q.subpath(i)
            sp2.reverse()
            ctx.claim("view%d twice restores" % i, snap_eq(ctx, snapshot(ctx, S, list(q)), before))


def h_twin(ctx):
    """wrong oracle: cubic controls not swapped"""
    S = ctx.S
    p, osegs = build(ctx, [("M", 1, False), ("C", 1, False)])
    q = copy(p)
    q.reverse()
    o = osegs[1]
    ctx.claim("twin", G.pt_eq(ctx, q[1].control1, o["c1"]))


def has_nmc(cmds):
    """a closed subpath that begins without its own move (directly after a close)"""
    after_close = False
    in_nomove = False
    for c in cmds:
        l = c[0]
        if l in "Mm":
            after_close = False
            in_nomove = False
        elif l in "Zz":
            if after_close or in_nomove:
                return True
            after_close = True
            in_nomove = False
        else:
            if after_close:
                in_nomove = True
            after_close = False
    return False


def _cm(s):
    """compact spec 'M L L z' -> cmds"""
    return [(l, 0 if l in "Zz" else 1, False) for l in s]


FAMILY = [
    "ML", "MLL", "MLz", "MLLz", "MLLZ", "MQ", "MC", "MA", "MCQAL", "MQTz", "MCSz", "MAz", "MLzMLL", "MLLMLz", "MLzMQzMC", "MLMLML",
    "MLzL", "MLzLL", "MLzLLz", "MLzQz", "MCzAz", "MLzLMCz", "MM", "MML", "MLM", "MLMM", "MzL", "Mz", "MLzz", "MLzzL", "MLmLz", "MhvZ", "MlLz",
    "MLLLLz", "MAAz", "MLzMAQ", "MTz", "MSz",
]
FRAGMENTS = ["LL", "LLz", "QL", "CLz", "zL"]


def harnesses(tier):
    hs = []
    for f in FAMILY:
        for mode in ("whole", "views"):
            tag = "[closed-without-move]" if has_nmc(_cm(f)) else ""
            hs.append({"name": "%s%s/%s" % (mode, tag, f), "fn": "h_reverse", "params": {"cmds": [list(c) for c in _cm(f)], "mode": mode}})
    for f in ["MLQz", "MCzMAL", "MLzLC", "MA", "MLLMQz"]:
        hs.append({"name": "matrix/%s" % f, "fn": "h_reverse", "params": {"cmds": [list(c) for c in _cm(f)], "mode": "matrix"}})
    for f in ["ML", "MLLz", "MQTz", "MLMCS", "MLzMLL", "MAL"]:
        hs.append({"name": "view_matrix/%s" % f, "fn": "h_reverse", "params": {"cmds": [list(c) for c in _cm(f)], "mode": "view_matrix"}})
    n = 3 if tier == "thorough" else 2
    letters = "MmZzLlHVCSQTAa" if tier != "thorough" else G.LETTERS
    for seq in itertools.product(letters, repeat=n):
        cmds = [("M", 1, False)] + [(l, 0 if l in "Zz" else 1, False) for l in seq]
        tag = "[closed-without-move]" if has_nmc(cmds) else ""
        hs.append({"name": "seq%s/M%s" % (tag, "".join(seq)), "fn": "h_reverse", "params": {"cmds": [list(c) for c in cmds], "mode": "whole"}})
    hs.append({"name": "twin/cubic_controls", "fn": "h_twin", "twin": True})
    return hs
