"""C14 -- fill, stroke and stroke width follow the SVG/CSS cascade and inheritance."""
import io
import itertools
from fractions import Fraction
from . import docgen as D
from .svgcolors import TABLE

ID = "C14"
TOL = (1e-6, 1e-6)
BOUNDS = {
    "quick": "documents svg > g > (rect | use of a rect in defs) with nesting <= 3; per property (fill, stroke, stroke-width) every single source and every pair of sources among "
             "{presentation attribute, rule via *, type, .class, type.class, #id, comma list, inline style} in both sheet orders, on the element itself and on an ancestor; "
             "currentColor with color at each level or from the caller; fill-/stroke-opacity (symbolic) own and inherited; display:none; reify with symbolic transforms of "
             "either determinant sign and vector-effect; stroke widths and opacities are symbolic numbers, colours distinct keywords per source; stroke-width with units px, pt, pc, in, cm, mm (symbolic amount and ppi) through attribute, rule, inline style and inheritance",
    "thorough": "all triples of sources for fill and stroke-width and two-level inheritance chains",
}
OUTSIDE = ["rules that select the root svg element (the style element is necessarily read after the root's start tag)", "selectors the library documents as unsupported (descendant, attribute, pseudo-classes)", "!important", "nesting deeper than the bound"]
STUBS = []
ASSUMPTIONS = ["oracle: CSS cascade: presentation attribute < author rules ordered by specificity (universal < type < class < type.class < id) then sheet order < inline style; "
               "inheritance of fill/stroke/stroke-width/opacities/color from the nearest ancestor that sets them, also through use; defaults fill black, stroke none, width 1"]

PALETTE = ["red", "lime", "blue", "yellow", "cyan", "magenta", "teal", "navy", "olive", "maroon", "silver", "gray", "purple", "orange", "pink", "gold"]
SOURCES = ["attr", "star", "type", "class", "typeclass", "id", "comma", "inline"]
SPEC = {"star": (0, 0, 0), "type": (0, 0, 1), "class": (0, 1, 0), "typeclass": (0, 1, 1), "id": (1, 0, 0), "comma": (0, 0, 1)}
INHERITED = ["fill", "stroke", "stroke-width", "fill-opacity", "stroke-opacity", "color"]


def rgba_of(name, opacity_alpha=255):
    r, g, b = TABLE[name]
    return r * 16777216 + g * 65536 + b * 256 + opacity_alpha


class Cascade:
    """builds the XML and evaluates the expected computed values"""

    def __init__(self, ctx):
        self.ctx = ctx
        self.rules = []      # (selector text, prop, value text, value obj, specificity, matcher)
        self.k = 0
        self.colors = iter(PALETTE)

    def value(self, prop):
        if prop in ("stroke-width",):
            v = self.ctx.real("w%d" % self.k, 0.01, 100)
            self.k += 1
            return v
        if prop in ("fill-opacity", "stroke-opacity"):
            v = self.ctx.real("o%d" % self.k, 0, 1)
            self.k += 1
            return v
        return next(self.colors)


def element_sources(ctx, cas, tag, elem_id, cls, prop, kinds, order):
    """returns (attrs dict, rules list entries, candidates list) for one element"""
    attrs = {}
    rules = []
    cands = []   # (priority tuple, value)
    for pos, kind in enumerate(kinds):
        v = cas.value(prop)
        if kind == "attr":
            attrs[prop] = "%s" % v
            cands.append(((0, (0, 0, 0), 0), v))
        elif kind == "inline":
            attrs.setdefault("style", "")
            attrs["style"] += "%s:%s;" % (prop, v)
            cands.append(((2, (0, 0, 0), 0), v))
        else:
            sel = {"star": "*", "type": tag, "class": "." + cls, "typeclass": "%s.%s" % (tag, cls), "id": "#" + elem_id, "comma": "title, %s" % tag}[kind]
            rules.append((order[pos], sel, prop, v, SPEC[kind]))
    return attrs, rules, cands


def h_cascade(ctx, prop, kinds, sheet_order, level, via_use=False, reify=True):
    """`kinds`: sources that set `prop` on the element at `level` (0 = the shape itself, 1 = parent g, 2 = root svg)"""
    S = ctx.S
    cas = Cascade(ctx)
    tags = {0: "rect", 1: "g", 2: "svg"}
    ids = {0: "r1", 1: "g1", 2: "s1"}
    classes = {0: "cr", 1: "cg", 2: "cs"}
    attrs, rules, cands = element_sources(ctx, cas, tags[level], ids[level], classes[level], prop, kinds, sheet_order)
    # rule candidates: specificity, then sheet order
    rules.sort(key=lambda r: r[0])
    for idx, (o, sel, p, v, spec) in enumerate(rules):
        cands.append(((1, spec, idx), v))
    want = max(cands, key=lambda c: c[0])[1] if cands else None
    if level == 1 and "star" in kinds:
        # '*' also selects the shape itself: its own (specificity 0) declaration beats anything inherited from the group
        want = [v for (o, sel, p_, v, spec) in rules if sel == "*"][-1]
    # every rule sits between two block comments (comments are ignored, the rules between them are not)
    style = "".join("/* rule %d: %s */\n%s { %s: %s }\n" % (i, p, sel, p, v) for i, (o, sel, p, v, spec) in enumerate(rules)) + "/* end */"
    paint = {lvl: {"id": ids[lvl], "class": classes[lvl]} for lvl in (0, 1, 2)}
    paint[level].update(attrs)
    # make the stroke visible for width checks
    if prop == "stroke-width":
        paint[2]["stroke"] = "black"
    rect = {"t": "rect", "paint": {k: v for k, v in paint[0].items() if k != "id"}, "id": ids[0]}
    if via_use:
        body = [{"t": "defs", "ch": [rect]}, {"t": "g", "tr": [["translate", 2]], "paint": {k: v for k, v in paint[1].items() if k != "id"}, "id": ids[1],
                                              "ch": [{"t": "use", "ref": "r1", "xy": True}]}]
        if level == 0:
            pass
    else:
        body = [{"t": "g", "tr": [["translate", 2]], "paint": {k: v for k, v in paint[1].items() if k != "id"}, "id": ids[1], "ch": [rect]}]
    spec = {"t": "svg", "size": "attr", "paint": paint[2], "ch": body}
    ppi = 96.0
    doc = D.Doc(ctx, spec, ppi)
    text = doc.text
    if style:
        text = text.replace(">", "><style>%s</style>" % style, 1)
    svg = S.SVG.parse(io.StringIO(text), reify=reify)
    shapes = D.lib_shapes(S, svg)
    ok = len(shapes) == 1
    ctx.claim("one rendered shape", ok, lambda: text)
    if not ok:
        return
    sh = shapes[0]
    if via_use and level == 1 and False:
        pass
    if prop in ("fill", "stroke"):
        default = {"fill": "black", "stroke": None}[prop]
        name = want if want is not None else default
        got = getattr(sh, prop)
        if name is None:
            ctx.claim("%s default none" % prop, got is None or got.value is None)
        else:
            ctx.claim("%s = %s" % (prop, "winning source"), got is not None and got.value == rgba_of(name), lambda: "got %r want %s in %s" % (got, name, text))
    else:
        w = want if want is not None else 1
        ctx.claim("stroke-width = winning source", ctx.eq(sh.stroke_width, w), lambda: text)


def h_inherit(ctx, prop, chain, via_use):
    """chain: which of (svg, g, rect) set the property (by attribute / inline / class rule): the nearest one wins"""
    S = ctx.S
    cas = Cascade(ctx)
    setters = {}
    rules = []
    vals = {}
    for lvl, how in chain:
        v = cas.value(prop)
        vals[lvl] = v
        if how == "attr":
            setters.setdefault(lvl, {})[prop] = "%s" % v
        elif how == "inline":
            setters.setdefault(lvl, {})["style"] = "%s:%s" % (prop, v)
        else:
            cls = "k%d" % lvl
            setters.setdefault(lvl, {})["class"] = cls
            rules.append(".%s { %s: %s; }" % (cls, prop, v))
    nearest = min(vals) if vals else None
    want = vals[nearest] if vals else None
    extra = {"stroke": "black"} if prop == "stroke-width" else {}
    rect = {"t": "rect", "paint": setters.get(0, {}), "id": "r1"}
    g_paint = dict(setters.get(1, {}))
    if via_use:
        body = [{"t": "defs", "ch": [rect]}, {"t": "g", "paint": g_paint, "ch": [{"t": "use", "ref": "r1", "xy": True}]}]
    else:
        body = [{"t": "g", "paint": g_paint, "ch": [{"t": "g", "ch": [rect]}]}]
    spec = {"t": "svg", "size": "attr", "paint": dict(setters.get(2, {}), **extra), "ch": body}
    doc = D.Doc(ctx, spec, 96.0)
    text = doc.text
    if rules:
        text = text.replace(">", "><style>%s</style>" % "\n".join(rules), 1)
    svg = S.SVG.parse(io.StringIO(text))
    shapes = D.lib_shapes(S, svg)
    ok = len(shapes) == 1
    ctx.claim("one rendered shape", ok, lambda: text)
    if not ok:
        return
    sh = shapes[0]
    if prop in ("fill", "stroke"):
        default = {"fill": "black", "stroke": None}[prop]
        name = want if want is not None else default
        got = getattr(sh, prop)
        if name is None:
            ctx.claim("%s inherited/default none" % prop, got is None or got.value is None)
        else:
            ctx.claim("%s inherited from nearest" % prop, got is not None and got.value == rgba_of(name), lambda: "got %r want %s in %s" % (got, name, text))
    else:
        ctx.claim("stroke-width inherited from nearest", ctx.eq(sh.stroke_width, want if want is not None else 1), lambda: text)


def h_current_color(ctx, where, prop):
    """fill/stroke = currentColor; color set on the element, the parent, the root, or only by the caller"""
    S = ctx.S
    colors = {"self": "teal", "parent": "navy", "root": "olive", "caller": "maroon"}
    rect_p = {prop: "currentColor"}
    g_p = {}
    s_p = {}
    want = "maroon"
    if where == "self":
        rect_p["color"] = colors["self"]
        g_p["color"] = colors["parent"]
        want = colors["self"]
    elif where == "parent":
        g_p["color"] = colors["parent"]
        s_p["color"] = colors["root"]
        want = colors["parent"]
    elif where == "root":
        s_p["color"] = colors["root"]
        want = colors["root"]
    elif where == "inherit_cc":
        # currentColor set on the parent, resolved there, then inherited as a colour
        rect_p = {}
        g_p = {prop: "currentColor", "color": colors["parent"]}
        want = colors["parent"]
    spec = {"t": "svg", "size": "attr", "paint": s_p, "ch": [{"t": "g", "paint": g_p, "ch": [{"t": "rect", "paint": rect_p}]}]}
    doc = D.Doc(ctx, spec, 96.0)
    svg = S.SVG.parse(io.StringIO(doc.text), color="maroon")
    sh = D.lib_shapes(S, svg)[0]
    got = getattr(sh, prop)
    ctx.claim("currentColor from %s" % where, got is not None and got.value == rgba_of(want), lambda: "got %r want %s in %s" % (got, want, doc.text))


def h_opacity(ctx, prop, where, how):
    """fill-opacity / stroke-opacity folded into the colour's alpha; own or inherited"""
    S = ctx.S
    o = ctx.real("o", 0, 1)
    colour = "teal"
    base = prop.split("-")[0]
    rect_p = {base: colour}
    g_p = {}
    if how == "attr":
        tgt = {prop: "%s" % o}
    else:
        tgt = {"style": "%s:%s" % (prop, o)}
    (rect_p if where == "self" else g_p).update(tgt)
    spec = {"t": "svg", "size": "attr", "ch": [{"t": "g", "paint": g_p, "ch": [{"t": "rect", "paint": rect_p}]}]}
    doc = D.Doc(ctx, spec, 96.0)
    svg = S.SVG.parse(io.StringIO(doc.text))
    sh = D.lib_shapes(S, svg)[0]
    got = getattr(sh, base)
    r, g, b = TABLE[colour]
    ctx.claim("%s keeps rgb" % prop, got is not None and got.red == r and got.green == g and got.blue == b)
    ctx.claim("%s folded into alpha" % prop, ctx.le(ctx.absval(got.alpha - 255 * o), ctx.num(Fraction(1, 2))))
    other = getattr(sh, "stroke" if base == "fill" else "fill")
    if other is not None and other.value is not None:
        ctx.claim("%s leaves the other paint opaque" % prop, other.alpha == 255)


def h_width_reify(ctx, tr, vector_effect, reify):
    """reify multiplies the stroke width by sqrt|det| of the accumulated transform (viewport only when non-scaling)"""
    S = ctx.S
    w = ctx.real("w", 0.01, 100)
    rect_p = {"stroke": "red", "stroke-width": "%s" % w}
    if vector_effect:
        rect_p["vector-effect"] = "non-scaling-stroke"
    spec = {"t": "svg", "size": "attr", "vb": True, "par": "none", "ch": [{"t": "g", "tr": tr, "ch": [{"t": "line", "paint": rect_p, "tr": [["scale", 2]]}]}]}
    doc = D.Doc(ctx, spec, 96.0)
    svg = S.SVG.parse(io.StringIO(doc.text), reify=reify)
    sh = D.lib_shapes(S, svg)[0]
    e = doc.expected[0]
    m = e["vp"] if vector_effect else e["ctm"]
    factor = ctx.sqrt(ctx.absval(D.det(m)))
    if reify:
        ctx.claim("reified stroke width", ctx.eq(sh.stroke_width, w * factor))
    else:
        ctx.claim("unreified stroke width is the specified one", ctx.eq(sh.stroke_width, w))
        ctx.claim("implicit stroke width", ctx.eq(sh.implicit_stroke_width, w * factor))


def h_width_units(ctx, unit, source):
    """stroke-width with a CSS unit, set by attribute, rule, inline style or inherited from a group: resolved by the CSS ratios and the parser's ppi"""
    S = ctx.S
    w = ctx.real("w", 0.01, 100)
    ppi = ctx.real("ppi", 10, 1000)
    val = "%s%s" % (w, unit)
    rect = '<rect id="r" class="k" width="5" height="5" stroke="red"%s/>'
    style = ""
    if source == "attr":
        body = rect % (' stroke-width="%s"' % val)
    elif source == "inline":
        body = rect % (' stroke-width="7" style="stroke-width:%s"' % val)
    elif source == "rule":
        style = "<style>.k {stroke-width: %s}</style>" % val
        body = rect % ' stroke-width="7"'
    else:
        body = '<g stroke-width="%s">%s</g>' % (val, rect % "")
    text = '<svg xmlns="http://www.w3.org/2000/svg" width="100" height="100">%s%s</svg>' % (style, body)
    svg = S.SVG.parse(io.StringIO(text), ppi=ppi)
    sh = D.lib_shapes(S, svg)[0]
    ratio = {"": 1, "px": 1, "pt": Fraction(4, 3), "pc": 16}.get(unit)
    if ratio is not None:
        ctx.claim("stroke-width with unit resolves by the CSS ratio", ctx.eq(sh.stroke_width, w * ctx.num(Fraction(ratio))), lambda: text)
    else:
        per_in = {"in": Fraction(1), "cm": Fraction(100, 254), "mm": Fraction(10, 254)}[unit]
        ctx.claim("stroke-width with unit resolves by the CSS ratio and ppi", ctx.close(sh.stroke_width, w * ppi * ctx.num(per_in), 1e-5, 1e-9), lambda: text)


def h_display(ctx, where, how):
    S = ctx.S
    hid = {"attr": {"display": "none"}, "inline": {"style": "display:none"}, "rule": {"class": "hid"}, "upper": {"display": "NONE"}}[how]
    rect_p = dict(hid) if where == "self" else {}
    g_p = dict(hid) if where == "parent" else {}
    spec = {"t": "svg", "size": "attr", "ch": [{"t": "g", "paint": g_p, "ch": [{"t": "rect", "paint": rect_p}, {"t": "line"}]}, {"t": "polygon", "paint": {"fill": "red"}}]}
    doc = D.Doc(ctx, spec, 96.0)
    text = doc.text
    if how == "rule":
        text = text.replace(">", "><style>.hid{display:none}</style>", 1)
    svg = S.SVG.parse(io.StringIO(text))
    shapes = D.lib_shapes(S, svg)
    kinds = [type(s).__name__ for s in shapes]
    want = ["SimpleLine", "Polygon"] if where == "self" else ["Polygon"]
    ctx.claim("display none removes exactly the subtree", kinds == want, lambda: "%s vs %s" % (kinds, want))
    if shapes:
        last = shapes[-1]
        ctx.claim("sibling paint unaffected", last.fill is not None and last.fill.value == rgba_of("red"))


def h_two_classes(ctx, prop, class_attr_order, sheet_order, comment):
    """class="a b": two class rules of equal specificity -> the later rule in the sheet wins, whatever the order in the class attribute"""
    S = ctx.S
    cas = Cascade(ctx)
    va, vb = cas.value(prop), cas.value(prop)
    rules = {"a": ".a { %s: %s }" % (prop, va), "b": ".b { %s: %s; }" % (prop, vb)}
    sheet = [rules[k] for k in sheet_order]
    if comment:
        sheet.insert(1, "/* .a { %s: pink } */" % prop)
    want = {"a": va, "b": vb}[sheet_order[-1]]
    extra = ' stroke="black"' if prop == "stroke-width" else ""
    text = ('<svg xmlns="http://www.w3.org/2000/svg"><style>%s</style><rect class="%s" width="5" height="5"%s/></svg>'
            % ("\n".join(sheet), " ".join(class_attr_order), extra))
    svg = S.SVG.parse(io.StringIO(text))
    sh = D.lib_shapes(S, svg)[0]
    if prop == "stroke-width":
        ctx.claim("two classes: later rule wins", ctx.eq(sh.stroke_width, want), lambda: text)
    else:
        got = getattr(sh, prop)
        ctx.claim("two classes: later rule wins", got is not None and got.value == rgba_of(want), lambda: "%r in %s" % (got, text))


def h_twin(ctx):
    """wrong oracle: attribute beats inline style"""
    S = ctx.S
    w1, w2 = ctx.reals("w0 w1", 0.01, 100)
    text = '<svg xmlns="http://www.w3.org/2000/svg"><rect width="5" height="5" stroke="red" stroke-width="%s" style="stroke-width:%s"/></svg>' % (w1, w2)
    svg = S.SVG.parse(io.StringIO(text))
    sh = D.lib_shapes(S, svg)[0]
    ctx.claim("twin", ctx.eq(sh.stroke_width, w1))


def harnesses(tier):
    hs = []
    props = ["fill", "stroke", "stroke-width"]
    for prop in props:
        for level in (0, 1):
            for k in SOURCES:
                for via_use in ((False, True) if level == 0 or k in ("attr", "inline", "class") else (False,)):
                    hs.append({"name": "single/%s/L%d/%s%s" % (prop, level, k, "/use" if via_use else ""), "fn": "h_cascade",
                               "params": {"prop": prop, "kinds": [k], "sheet_order": [0], "level": level, "via_use": via_use}})
        for a, b in itertools.combinations(SOURCES, 2):
            for order in ([0, 1], [1, 0]):
                if order == [1, 0] and (a in ("attr", "inline") or b in ("attr", "inline")):
                    continue
                for level in ((0, 1) if prop != "stroke" else (0,)):
                    hs.append({"name": "pair/%s/L%d/%s+%s/%s" % (prop, level, a, b, "".join(map(str, order))), "fn": "h_cascade",
                               "params": {"prop": prop, "kinds": [a, b], "sheet_order": order, "level": level}})
        if tier == "thorough" and prop != "stroke":
            for trip in itertools.combinations(SOURCES, 3):
                for order in itertools.permutations([0, 1, 2]):
                    hs.append({"name": "triple/%s/%s/%s" % (prop, "+".join(trip), "".join(map(str, order))), "fn": "h_cascade",
                               "params": {"prop": prop, "kinds": list(trip), "sheet_order": list(order), "level": 0}})
        # same selector kind twice: sheet order decides
        for k in ("class", "type", "id"):
            hs.append({"name": "same/%s/%s" % (prop, k), "fn": "h_cascade", "params": {"prop": prop, "kinds": [k, k], "sheet_order": [0, 1], "level": 0}})
        hows = ["attr", "inline", "rule"]
        for n in (1, 2, 3):
            for levels in itertools.combinations((0, 1, 2), n):
                for i, hw in enumerate(itertools.product(hows, repeat=n)):
                    if any(l == 2 and h == "rule" for l, h in zip(levels, hw)):
                        continue   # a rule cannot select the root svg: its style element is read after the root's start tag
                    if n > 1 and i % 4 != 0 and tier != "thorough":
                        continue
                    for via_use in (False, True):
                        hs.append({"name": "inherit/%s/%s/%s%s" % (prop, "".join(map(str, levels)), "-".join(hw), "/use" if via_use else ""), "fn": "h_inherit",
                                   "params": {"prop": prop, "chain": [[l, h] for l, h in zip(levels, hw)], "via_use": via_use}})
        hs.append({"name": "inherit/%s/none" % prop, "fn": "h_inherit", "params": {"prop": prop, "chain": [], "via_use": False}})
    for prop in ("fill", "stroke"):
        for where in ("self", "parent", "root", "caller", "inherit_cc"):
            hs.append({"name": "currentColor/%s/%s" % (prop, where), "fn": "h_current_color", "params": {"where": where, "prop": prop}})
    for prop in ("fill-opacity", "stroke-opacity"):
        for where in ("self", "parent"):
            for how in ("attr", "inline"):
                hs.append({"name": "opacity/%s/%s/%s" % (prop, where, how), "fn": "h_opacity", "params": {"prop": prop, "where": where, "how": how}})
    for trn, tr in (("scale2", [["translate", 2], ["scale", 2]]), ("matrix", [["matrix", 6]]), ("reflect", [["nscale", 1]]), ("rotate", [["rotate", 1], ["scale", 1]])):
        for ve in (False, True):
            for reify in (True, False):
                hs.append({"name": "width/%s/ve=%s/reify=%s" % (trn, ve, reify), "fn": "h_width_reify", "params": {"tr": tr, "vector_effect": ve, "reify": reify}})
    for unit in ("px", "pt", "pc", "in", "cm", "mm"):
        for source in ("attr", "inline", "rule", "inherited"):
            hs.append({"name": "width_unit/%s/%s" % (unit, source), "fn": "h_width_units", "params": {"unit": unit, "source": source}})
    for where in ("self", "parent"):
        for how in ("attr", "inline", "rule", "upper"):
            hs.append({"name": "display/%s/%s" % (where, how), "fn": "h_display", "params": {"where": where, "how": how}})
    for prop in ("fill", "stroke-width"):
        for cao in (["a", "b"], ["b", "a"]):
            for so in (["a", "b"], ["b", "a"]):
                for comment in (False, True):
                    hs.append({"name": "two_classes/%s/%s/%s/%s" % (prop, "".join(cao), "".join(so), comment), "fn": "h_two_classes",
                               "params": {"prop": prop, "class_attr_order": cao, "sheet_order": so, "comment": comment}})
    hs.append({"name": "twin/attr_beats_inline", "fn": "h_twin", "twin": True})
    return hs
