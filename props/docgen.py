"""SVG document skeletons: one traversal produces the XML text (numbers printed with %s, so
symbolic numbers travel as tag numerals) and the specification-side expectation of the rendered
shapes (absolute defining points, paint), from SVG 2 chapters 5, 7, 8, 10."""
from fractions import Fraction

V = 1000.0


class Num:
    def __init__(self, ctx, prefix="d"):
        self.ctx, self.k, self.prefix = ctx, 0, prefix

    nonzero = False

    def __call__(self, lo=-V, hi=V):
        v = self.ctx.real("%s%d" % (self.prefix, self.k), lo, hi)
        self.k += 1
        if self.nonzero and lo < 0 < hi:
            self.ctx.assume(self.ctx.xne(v, 0))
        return v

    def pos(self):
        return self(1e-2, V)


I6 = (1, 0, 0, 1, 0, 0)


def compose(first, second):
    """'apply first, then second'"""
    a1, b1, c1, d1, e1, f1 = first
    a2, b2, c2, d2, e2, f2 = second
    return (a2 * a1 + c2 * b1, b2 * a1 + d2 * b1, a2 * c1 + c2 * d1, b2 * c1 + d2 * d1, a2 * e1 + c2 * f1 + e2, b2 * e1 + d2 * f1 + f2)


def apply(m, p):
    return (m[0] * p[0] + m[2] * p[1] + m[4], m[1] * p[0] + m[3] * p[1] + m[5])


def det(m):
    return m[0] * m[3] - m[1] * m[2]


UNITS = {"": 1, "px": 1, "pt": Fraction(4, 3), "pc": 16, "in": "ppi", "%": "pct"}


def transform_list(ctx, num, spec):
    """spec: list of [name, arity]; returns (text, matrix tuple of the list = right-most applied first)"""
    texts = []
    m = I6
    for name, ar in spec:
        if name == "translate":
            a = [num() for _ in range(ar)]
            t = (1, 0, 0, 1, a[0], a[1] if ar > 1 else 0)
        elif name == "scale":
            a = [num(0.1, 10) for _ in range(ar)]
            t = (a[0], 0, 0, a[1] if ar > 1 else a[0], 0, 0)
        elif name == "nscale":   # reflection
            a = [num(0.1, 10)]
            name = "scale"
            texts.append("scale(-%s, %s)" % (a[0], a[0]))
            t = (0 - a[0], 0, 0, a[0], 0, 0)
            m = compose(t, m)
            continue
        elif name == "matrix":
            a = [num(-10, 10) for _ in range(6)]
            t = tuple(a)
        elif name == "rotate":
            a = [num(-360, 360)]
            r = a[0] * ctx.num(Fraction(6.283185307179586) / 360)
            co, si = ctx.cos(r), ctx.sin(r)
            t = (co, si, 0 - si, co, 0, 0)
        elif name == "skewX":
            a = [num(-60, 60)]
            r = a[0] * ctx.num(Fraction(6.283185307179586) / 360)
            t = (1, 0, ctx.tan(r), 1, 0, 0)
        else:
            raise KeyError(name)
        texts.append("%s(%s)" % (name, ", ".join("%s" % v for v in a)))
        # the list denotes the product with the right-most function applied first: m_list = t1 . t2 . ... ; point -> t1(t2(...p))
        m = compose(t, m)
    return " ".join(texts), m


class Env:
    def __init__(self, ctm, vw, vh, ppi, vp=I6):
        self.ctm, self.vw, self.vh, self.ppi, self.vp = ctm, vw, vh, ppi, vp

    def child(self, ctm=None, vw=None, vh=None, vp=None):
        return Env(self.ctm if ctm is None else ctm, self.vw if vw is None else vw, self.vh if vh is None else vh, self.ppi,
                   self.vp if vp is None else vp)


def length_attr(ctx, num, env, unit, axis, positive=False):
    """-> (text, user-unit value)"""
    v = num.pos() if positive else num()
    u = UNITS[unit]
    if u == "ppi":
        val = v * env.ppi
    elif u == "pct":
        val = v * (env.vw if axis == "x" else env.vh) / 100
    else:
        val = v * ctx.num(u) if isinstance(u, Fraction) else v * u
    return "%s%s" % (v, unit), val


def viewport_matrix(ctx, ex, ey, ew, eh, vb, par):
    """SVG 2 8.2"""
    vx, vy, vw, vh = vb
    align, mos = par
    sx = ew / vw
    sy = eh / vh
    if align != "none":
        if mos == "meet":
            s = sx if sx < sy else sy
        else:
            s = sx if sx > sy else sy
        sx = sy = s
    tx = ex - vx * sx
    ty = ey - vy * sy
    if "xMid" in align:
        tx = tx + (ew - vw * sx) / 2
    if "xMax" in align:
        tx = tx + (ew - vw * sx)
    if "YMid" in align:
        ty = ty + (eh - vh * sy) / 2
    if "YMax" in align:
        ty = ty + (eh - vh * sy)
    return (sx, 0, 0, sy, tx, ty)


class Doc:
    """builds text + expectation for one skeleton"""

    def __init__(self, ctx, spec, ppi, caller_w=None, caller_h=None, caller_tr=None, nonzero=False):
        self.ctx = ctx
        self.num = Num(ctx)
        self.num.nonzero = nonzero
        self.ppi = ppi
        self.defs = {}       # id -> (node spec, recorded numbers closure)
        self.expected = []   # rendered shapes in document order
        self.caller_w, self.caller_h = caller_w, caller_h
        base = I6
        self.caller_text = None
        if caller_tr:
            self.caller_text, base = transform_list(ctx, self.num, caller_tr)
        self.records = {}    # id -> function(env) that re-emits the element (for use)
        env = Env(base, caller_w, caller_h, ppi)
        self.text = self.node(spec, env, top=True)

    # -- geometry of shapes in their own user space ----------------------------
    def shape(self, spec, env, emit=True):
        ctx, num = self.ctx, self.num
        kind = spec["t"]
        units = spec.get("units", {})
        attrs = []
        tr_text, tr_m = ("", I6)
        if spec.get("tr"):
            tr_text, tr_m = transform_list(ctx, num, spec["tr"])
            attrs.append('transform="%s"' % tr_text)
        if spec.get("id"):
            attrs.append('id="%s"' % spec["id"])
        for k, v in spec.get("paint", {}).items():
            attrs.append('%s="%s"' % (k, v))

        def la(name, axis, positive=False):
            t, val = length_attr(ctx, num, env, units.get(name, ""), axis, positive)
            attrs.append('%s="%s"' % (name, t))
            return val
        if kind == "rect":
            x, y, w, h = la("x", "x"), la("y", "y"), la("width", "x", True), la("height", "y", True)
            pts = [(x, y), (x + w, y), (x + w, y + h), (x, y + h)]
            geo = dict(kind="Rect", pts=pts, closed=True)
        elif kind == "rect_round":
            # rounded rectangle, radii below half the sides (no clamping): SVG 2 decomposition, segment end points only
            x, y, w, h = la("x", "x"), la("y", "y"), la("width", "x", True), la("height", "y", True)
            rx, ry = la("rx", "x", True), la("ry", "y", True)
            ctx.assume(ctx.and_(ctx.xlt(2 * rx, w), ctx.xlt(2 * ry, h)))
            pts = [(x + rx, y), (x + w - rx, y), (x + w, y + ry), (x + w, y + h - ry), (x + w - rx, y + h), (x + rx, y + h), (x, y + h - ry), (x, y + ry), (x + rx, y)]
            geo = dict(kind="Rect", pts=pts, closed=True)
            kind = "rect"
        elif kind == "rect_noxy":
            w, h = la("width", "x", True), la("height", "y", True)
            pts = [(0, 0), (w, 0), (w, h), (0, h)]
            geo = dict(kind="Rect", pts=pts, closed=True)
            kind = "rect"
        elif kind == "line":
            x1, y1, x2, y2 = la("x1", "x"), la("y1", "y"), la("x2", "x"), la("y2", "y")
            geo = dict(kind="SimpleLine", pts=[(x1, y1), (x2, y2)], closed=False)
        elif kind in ("polyline", "polygon"):
            p = [(num(), num()) for _ in range(3)]
            attrs.append('points="%s"' % " ".join("%s,%s" % q for q in p))
            geo = dict(kind=kind.capitalize(), pts=p, closed=(kind == "polygon"))
        elif kind == "path":
            p = [(num(), num()) for _ in range(3)]
            rel = (num(), num())
            attrs.append('d="M%s,%s L%s,%s %s,%s l%s,%s z"' % (p[0][0], p[0][1], p[1][0], p[1][1], p[2][0], p[2][1], rel[0], rel[1]))
            geo = dict(kind="Path", pts=p + [(p[2][0] + rel[0], p[2][1] + rel[1])], closed=True)
        elif kind == "circle":
            cx, cy, r = la("cx", "x"), la("cy", "y"), la("r", "x", True)
            geo = dict(kind="Circle", pts=[(cx + r, cy), (cx, cy + r), (cx - r, cy), (cx, cy - r)], center=(cx, cy), closed=True, round=True)
        else:
            raise KeyError(kind)
        text = "<%s %s/>" % (kind, " ".join(attrs))
        ctm = compose(tr_m, env.ctm)

        def emit_fn(env2, _geo=geo, _tr=tr_m, _spec=spec):
            c2 = compose(_tr, env2.ctm)
            self.expected.append(dict(kind=_geo["kind"], pts=[apply(c2, q) for q in _geo["pts"]], closed=_geo["closed"], ctm=c2, vp=env2.vp,
                                      center=apply(c2, _geo["center"]) if "center" in _geo else None, spec=_spec, round=_geo.get("round", False)))
        if spec.get("id"):
            self.records[spec["id"]] = emit_fn
        if emit:
            emit_fn(env)
        return text

    def children(self, specs, env, emit=True):
        return "".join(self.node(c, env, emit=emit) for c in specs)

    def node(self, spec, env, top=False, emit=True):
        ctx, num = self.ctx, self.num
        t = spec["t"]
        if t == "svg":
            return self.svg(spec, env, top, emit)
        if t == "g":
            attrs = []
            m = I6
            if spec.get("tr"):
                text, m = transform_list(ctx, num, spec["tr"])
                attrs.append('transform="%s"' % text)
            if spec.get("id"):
                attrs.append('id="%s"' % spec["id"])
            hidden = spec.get("display_none", False)
            if hidden:
                attrs.append('display="none"' if hidden == "attr" else 'style="display:none"')
            for k, v in spec.get("paint", {}).items():
                attrs.append('%s="%s"' % (k, v))
            env2 = env.child(ctm=compose(m, env.ctm))
            start = len(self.expected)
            inner = self.children(spec.get("ch", []), env2, emit=emit and not hidden)
            if spec.get("id"):
                chspec = spec.get("ch", [])
                ids = [c.get("id") for c in chspec]

                def emit_group(env3, _m=m, _chspec=chspec):
                    e4 = env3.child(ctm=compose(_m, env3.ctm))
                    for c in _chspec:
                        self.reemit(c, e4)
                self.records[spec["id"]] = emit_group
            return "<g %s>%s</g>" % (" ".join(attrs), inner)
        if t == "defs":
            inner = self.children(spec.get("ch", []), env, emit=False)
            return "<defs>%s</defs>" % inner
        if t == "use":
            attrs = ['xlink:href="#%s"' % spec["ref"]] if spec.get("xlink") else ['href="#%s"' % spec["ref"]]
            m = I6
            if spec.get("tr"):
                text, m = transform_list(ctx, num, spec["tr"])
                attrs.append('transform="%s"' % text)
            tx = ty = 0
            if spec.get("xy"):
                tx, ty = num(), num()
                attrs.append('x="%s" y="%s"' % (tx, ty))
            if spec.get("id"):
                attrs.append('id="%s"' % spec["id"])
            # use: transform, then a trailing translate(x, y)
            ctm = compose((1, 0, 0, 1, tx, ty), compose(m, env.ctm))
            env2 = env.child(ctm=ctm)
            if emit and spec["ref"] in self.records:
                self.records[spec["ref"]](env2)
            if spec.get("id"):
                ref = spec["ref"]

                def emit_use(env3, _m=m, _tx=tx, _ty=ty, _ref=ref):
                    c = compose((1, 0, 0, 1, _tx, _ty), compose(_m, env3.ctm))
                    if _ref in self.records:
                        self.records[_ref](env3.child(ctm=c))
                self.records[spec["id"]] = emit_use
            return "<use %s/>" % " ".join(attrs)
        return self.shape(spec, env, emit)

    def reemit(self, spec, env):
        """expected rendering of an already generated element under another environment (use expansion)"""
        if spec.get("id") and spec["id"] in self.records:
            self.records[spec["id"]](env)
        else:
            raise KeyError("element inside a referenced group needs an id in this generator")

    def svg(self, spec, env, top, emit):
        ctx, num = self.ctx, self.num
        attrs = []
        if top:
            attrs.append('xmlns="http://www.w3.org/2000/svg" xmlns:xlink="http://www.w3.org/1999/xlink"')
        m = I6
        if spec.get("tr"):
            text, m = transform_list(ctx, num, spec["tr"])
            attrs.append('transform="%s"' % text)
        vb = None
        if spec.get("vb"):
            vb = (num(), num(), num.pos(), num.pos())
            attrs.append('viewBox="%s %s %s %s"' % vb)
        par = spec.get("par")
        if par:
            attrs.append('preserveAspectRatio="%s"' % par)
        ex = ey = 0
        if spec.get("xy"):
            tx, ex = length_attr(ctx, num, env, spec.get("xyunit", ""), "x")
            ty, ey = length_attr(ctx, num, env, spec.get("xyunit", ""), "y")
            attrs.append('x="%s" y="%s"' % (tx, ty))
        size = spec.get("size", "attr")
        if size == "attr":
            tw, ew = length_attr(ctx, num, env, spec.get("sizeunit", ""), "x", True)
            th, eh = length_attr(ctx, num, env, spec.get("sizeunit", ""), "y", True)
            attrs.append('width="%s" height="%s"' % (tw, th))
        else:
            # width/height default to 100% of the enclosing viewport (caller's size for the root;
            # the library falls back to the viewBox size, else 1000, when the caller gives none)
            ew, eh = env.vw, env.vh
            if ew is None:
                ew = vb[2] if vb is not None else 1000
            if eh is None:
                eh = vb[3] if vb is not None else 1000
        if spec.get("paint"):
            for k, v in spec["paint"].items():
                attrs.append('%s="%s"' % (k, v))
        ctm = compose(m, env.ctm)
        vpm = env.vp
        if vb is not None:
            p = (par or "xMidYMid meet").split(" ")
            align, mos = p[0], (p[1] if len(p) > 1 else "meet")
            vm = viewport_matrix(ctx, ex, ey, ew, eh, vb, (align, mos))
            ctm = compose(vm, ctm)
            vpm = ctm
            env2 = env.child(ctm=ctm, vw=vb[2], vh=vb[3], vp=vpm)
        else:
            env2 = env.child(ctm=ctm, vw=ew, vh=eh)
        inner = self.children(spec.get("ch", []), env2, emit=emit)
        return "<svg %s>%s</svg>" % (" ".join(attrs), inner)


def lib_shapes(S, svg):
    return [e for e in svg.elements() if isinstance(e, S.Shape)]


def shape_points(S, shape):
    """absolute defining points of a parsed shape through abs(Path(shape))"""
    p = abs(S.Path(shape))
    pts = []
    for seg in p:
        if isinstance(seg, S.Close):
            continue
        pts.append((seg.end.x, seg.end.y))
    return p, pts
