"""C10 -- document parsing never aborts on a bad element; siblings are unaffected."""
import io
from . import docgen as D

ID = "C10"
TOL = (1e-6, 1e-9)
BOUNDS = {
    "quick": "documents svg > [sibling before] [container >] faulty element [siblings inside container] [siblings after] (the siblings include percentage-sized shapes, which depend on the viewport in force); faulty element kind in {path, rect, circle, ellipse, "
             "line, polyline, polygon, g, svg, svg with viewBox, use, image, text}; faulty attribute in {d, transform, fill, stroke, stroke-width, opacity, x/width/r lengths, points, viewBox, "
             "preserveAspectRatio, style, href}; fault = a template with 1-2 fully symbolic characters (any Unicode scalar that is legal inside an XML attribute) at "
             "every interesting position, or one of a catalogue of concrete malformed values (incl. lengths that cannot be resolved: em/ex/vw in transforms and sizes, alone and followed by further functions); dangling, self, ancestor and mutually cyclic use references",
    "thorough": "three symbolic characters and two faulty attributes per document",
}
OUTSIDE = ["faults in stylesheet text", "more than two faults per document",
           "XML well-formedness itself (expat is trusted; symbolic characters exclude < & \" and control characters)"]
STUBS = []
ASSUMPTIONS = ["the reference rendering of the unaffected elements is the parse of the same document with the faulty element removed"]

NS = 'xmlns="http://www.w3.org/2000/svg" xmlns:xlink="http://www.w3.org/1999/xlink"'
BEFORE = '<rect id="b1" x="1" y="2" width="3" height="4" fill="red" stroke="blue" stroke-width="2"/>'
INSIDE = '<circle id="i1" cx="5" cy="6" r="7" fill="#123456"/><rect id="i2" x="5%" y="5%" width="10%" height="20%"/>'
AFTER = '<path id="a1" d="M1,1 L2,3 Q4,5 6,7 z" transform="translate(3,4) scale(2)" fill="none" stroke="lime"/><polygon id="a2" points="1,1 2,2 3,1"/>'
# percentage lengths: they show whether the viewport in force after the faulty element is the right one again
AFTER += '<rect id="a3" x="10%" y="20%" width="30%" height="40%"/><line id="a4" x1="0" y1="0" x2="100%" y2="50%" stroke="black"/>'

ELEMENTS = {
    "path": ('<path id="f" d="M1,2 L3,4 5,6 z"%s/>', None),
    "rect": ('<rect id="f" x="1" y="1" width="8" height="9"%s/>', None),
    "circle": ('<circle id="f" cx="1" cy="1" r="8"%s/>', None),
    "ellipse": ('<ellipse id="f" cx="1" cy="1" rx="8" ry="3"%s/>', None),
    "line": ('<line id="f" x1="1" y1="1" x2="8" y2="3"%s/>', None),
    "polyline": ('<polyline id="f" points="1,1 8,3 4,4"%s/>', None),
    "polygon": ('<polygon id="f" points="1,1 8,3 4,4"%s/>', None),
    "g": ('<g id="f"%s><rect id="fc" x="1" y="1" width="2" height="2"/></g>', None),
    "svg": ('<svg id="f" x="1" y="1" width="20" height="20"%s><rect id="fc" x="1" y="1" width="2" height="2"/></svg>', None),
    "svgvb": ('<svg id="f" x="1" y="1" width="20" height="20" viewBox="0 0 10 10"%s><rect id="fc" x="1" y="1" width="2" height="2"/></svg>', None),
    "use": ('<use id="f" href="#b1" x="3" y="3"%s/>', None),
    "text": ('<text id="f" x="1" y="1"%s>hi</text>', None),
    "image": ('<image id="f" x="1" y="1" width="5" height="5"%s/>', None),
}


def shape_sig(S, e):
    """geometry and paint of a rendered element, as comparable values"""
    if isinstance(e, S.Shape):
        try:
            d = abs(S.Path(e)).d()
        except Exception as ex:   # a shape that cannot be decomposed is reported by the caller
            d = "ERR:%s" % type(ex).__name__
        return (type(e).__name__, e.id, d, None if e.fill is None else e.fill.value, None if e.stroke is None else e.stroke.value, e.stroke_width)
    return (type(e).__name__, getattr(e, "id", None))


def collect(S, svg, exclude_ids):
    """rendered elements outside the faulty element's subtree (document order)"""
    out = []

    def walk(node):
        for e in node:
            if getattr(e, "id", None) in exclude_ids:
                continue      # the faulty element and everything it contains / expands to
            if isinstance(e, (S.Shape, S.Text, S.Image)):
                out.append(shape_sig(S, e))
            if isinstance(e, (S.Group, S.Use)):
                walk(e)
    if isinstance(svg, (S.Group, S.Use)):
        walk(svg)
    return out


def build_doc(faulty, layout):
    """layout: subset of {'before','container','inside','after'}"""
    inner = faulty
    if "container" in layout:
        inner = '<g id="cont" transform="translate(1,1)">' + faulty + (INSIDE if "inside" in layout else "") + "</g>"
    return "<svg " + NS + ' width="100" height="100">' + (BEFORE if "before" in layout else "") + inner + (AFTER if "after" in layout else "") + "</svg>"


def check_doc(ctx, S, text, reference_text, faulty_ids=("f", "fc"), tag="doc"):
    svg = S.SVG.parse(io.StringIO(text))     # default error mode: must not raise (an escaping exception is the violation)
    ctx.claim(tag + " returns a tree", svg is not None)
    if svg is None:
        return

    def post(c):
        # concrete comparison of the unaffected elements (run on the path's witness; values are concrete there anyway)
        pass
    ref = S.SVG.parse(io.StringIO(reference_text))
    got = collect(S, svg, faulty_ids)
    want = collect(S, ref, faulty_ids)
    ok = len(got) == len(want)
    ctx.claim(tag + " unaffected elements present", ok, lambda: "%r vs %r" % (got, want))
    if ok:
        same = True
        for g, w in zip(got, want):
            if len(g) != len(w) or g[:5] != w[:5]:
                same = False
            elif len(g) > 5:
                if ctx.is_symbolic(g[5]) or ctx.is_symbolic(w[5]):
                    ctx.claim(tag + " sibling stroke width", ctx.eq(g[5], w[5]))
                elif g[5] != w[5]:
                    same = False
        ctx.claim(tag + " unaffected elements identical", same, lambda: "%r vs %r" % (got, want))


XMLSAFE_EXCLUDE = '<&"'


def sym_chars(ctx, name, n):
    s = ctx.chars(name, [None] * n)
    for o in ctx.ordinals(s):
        ctx.assume(ctx.and_(ctx.xge(o, 32), *[ctx.xne(o, ord(c)) for c in XMLSAFE_EXCLUDE]))
        ctx.assume(ctx.or_(ctx.xlt(o, 0xFFFE), ctx.xgt(o, 0xFFFF)))
    return s


def h_fault(ctx, elem, attr, template, nsym, layout):
    """template: attribute value with '@' marking the symbolic characters' position"""
    S = ctx.S
    ctx.option("concretize_digits", True)
    s = sym_chars(ctx, "s", nsym) if nsym else ""
    pre, post = template.split("@") if "@" in template else (template, "")
    value = pre + s + post
    tmpl = ELEMENTS[elem][0]
    a, b = tmpl.split("%s")
    # an attribute already present in the template is replaced
    import re
    a2 = re.sub(r'\s%s="[^"]*"' % re.escape(attr), "", a)
    faulty = a2 + " " + attr + '="' + value + '"' + b
    text = build_doc(faulty, layout)
    reference = build_doc("", layout)
    check_doc(ctx, S, text, reference)


def h_use(ctx, kind):
    S = ctx.S
    docs = {
        "dangling": '<use id="f" href="#nothing" x="1"/>',
        "dangling_xlink": '<use id="f" xlink:href="#nothing"/>',
        "empty_href": '<use id="f" href=""/>',
        "nohash": '<use id="f" href="b1"/>',
        "self": '<use id="f" href="#f"/>',
        "ancestor": '<g id="f"><use id="fc" href="#f"/></g>',
        "mutual": '<g id="f"><use id="fc" href="#f2"/></g><g id="f2"><use id="fc2" href="#f"/></g>',
        "mutual_defs": '<defs><g id="f"><use id="fc" href="#f2"/></g><g id="f2"><use id="fc2" href="#f"/></g></defs><use id="f3" href="#f"/>',
        "self_nested": '<defs><use id="f" href="#f"/></defs><use id="f3" href="#f"/>',
    }
    faulty = docs[kind]
    text = build_doc(faulty, ["before", "after"])
    reference = build_doc("", ["before", "after"])
    check_doc(ctx, S, text, reference, faulty_ids=("f", "fc", "f2", "fc2", "f3"))


def h_twin(ctx):
    """wrong claim: a faulty path is rendered completely"""
    S = ctx.S
    s = sym_chars(ctx, "s", 1)
    text = "<svg " + NS + '><path id="f" d="M1,1 L2,2 ' + s + ' 3,3"/></svg>'
    svg = S.SVG.parse(io.StringIO(text))
    p = [e for e in svg.elements() if isinstance(e, S.Path)]
    ctx.claim("twin", len(p) == 1 and len(p[0]) == 3)


CATALOGUE = {
    "transform": ["rotate(a)", "rotate()", "matrix(1 2 3)", "matrix()", "translatex(a)", "translateY()", "scale()", "scalex()", "skewX()", "skewy(b)", "skew(1)", "skew()",
                  "rotate(45deg,)", "translate(1,2", "rotate(1,2)", "foo(1)", "matrix(1,2,3,4,5,6,7)", "scale(1e400)", "rotate(1e400)", ")", "((", "translate(1%,2mm)", "rotate(10turn 5)",
                  # lengths that cannot be resolved (no font size known), alone and followed by functions they cannot be combined with
                  "translate(1em)", "translate(1em) translate(2)", "translate(2ex, 1) rotate(5)", "translate(1in) translate(2)", "translate(1vw, 1vh) scale(2)"],
    "fill": ["rgb(1.5,2,3)", "rgb(1,2)", "rgb()", "#12", "#1234567", "#gggggg", "hsl(1,2,3)", "hsl(a,b%,c%)", "rgba(1,2,3,x)", "url(#nothing)", "url(", "currentcolor", "",
             "rgb(300%,-5%,1e3%)", "hsl(1e400,1%,1%)", "transparent none", "12345", "-5", "rgb(1e400,0,0)"],
    "stroke": ["rgb(1.5,2,3)", "#", "none none", "url(#f)"],
    "stroke-width": ["abc", "", "-1", "1e400", "1 2", "5furlongs", "%", ".", "1e", "--1"],
    "fill-opacity": ["abc", "", "2", "-1", "1e400", "50%", "."],
    "x": ["abc", "", "1e400", "5furlongs", ".", "1,2", "--", "1em"],
    "width": ["abc", "", "-5", "0", "1e400", "auto", "1em", "2ex"],
    "r": ["abc", "", "-5", "0", "1e400"],
    "rx": ["abc", "-5", "1e400", "200%"],
    "points": ["", "1", "1,2 3", "a,b", "1,,2", "1e400,2 3,4", ",", "1-2-3"],
    "viewBox": ["", "1", "1 2 3", "a b c d", "0 0 0 0", "1 2 3 4 5", "0 0 -5 -5", "0,0,1e400,1", "0 0 1e-400 1"],
    "preserveAspectRatio": ["", "bogus", "xMidYMid bogus", "none slice extra", "slice", " "],
    "d": ["", "M", "M1", "M1,2L", "L1,2", "M1,2A1", "M1,2 A1 1 0 2 0 3 3", "Mz", "M1,2zL", "M1,2 C1,2", "M 1e400,2 L3,4", "M1,2 A 1e-200,1 0 0 0 3,3", "h1", "M1,2 a0 0 0 0 0 1 1"],
    "style": ["", ";", ":", "fill", "fill:", ":red", "fill:red:blue", "display:", ";;;", "fill:rgb(1.5,2,3)", "stroke-width:abc"],
    "href": ["", "#", "#f", "nothing", "data:,", "data:image/png;base64,!!!"],
    "font-size": ["abc", "", "-1", "1e400"],
    "font": ["", "bogus", "12px", "italic bold 12px/30px Georgia, serif", "/"],
}
ATTR_ELEMS = {
    "transform": list(ELEMENTS),
    "fill": ["path", "rect", "circle", "g", "svg", "text", "use"],
    "stroke": ["path", "line", "g"],
    "stroke-width": ["path", "rect", "g", "svg", "text"],
    "fill-opacity": ["rect", "g"],
    "x": ["rect", "svg", "svgvb", "use", "text", "image"],
    "width": ["rect", "svg", "svgvb", "use", "image"],
    "r": ["circle"],
    "rx": ["rect", "ellipse"],
    "points": ["polyline", "polygon"],
    "viewBox": ["svg"],
    "preserveAspectRatio": ["svgvb", "image"],
    "d": ["path"],
    "style": ["path", "g", "rect"],
    "href": ["use", "image"],
    "font-size": ["text"],
    "font": ["text"],
}
SYM_TEMPLATES = {
    "transform": ["@", "rotate(@)", "rotate(1@)", "matrix(1 2 3 4 5@)", "translate(@", "scale(2)@", "rotate(30@,1,1)", "skewX(@)", "@(1)", "translate(1@2)"],
    "fill": ["@", "#@", "#12@", "rgb(@)", "rgb(1,2,3@)", "rgb(1@,2,3)", "hsl(@,1%,1%)", "r@d", "url(#@)"],
    "stroke-width": ["@", "1@", "@1", "1@m"],
    "x": ["@", "1@", "1@m"],
    "width": ["@", "1@"],
    "points": ["@", "1,2@3,4", "1,2 @", "1@2 3,4"],
    "viewBox": ["@", "0 0 10@10", "0 0 10 @", "0 0@ 10 10"],
    "preserveAspectRatio": ["@", "xMid@YMid", "xMidYMid @", "none@"],
    "d": ["M1,2 @", "M1,2 L@", "@1,2", "M1,2 A1 1 0 @ 0 3 3"],
    "fill-opacity": ["@", "0.5@"],
}


def harnesses(tier):
    hs = []
    layouts = [["before", "container", "inside", "after"], ["after"], ["before", "after"]]
    k = 0
    for attr, values in CATALOGUE.items():
        for elem in ATTR_ELEMS[attr]:
            for v in values:
                lay = layouts[k % 3]
                k += 1
                if '"' in v or "<" in v or "&" in v:
                    continue
                hs.append({"name": "cat/%s/%s/%d" % (elem, attr, values.index(v)), "fn": "h_fault",
                           "params": {"elem": elem, "attr": attr, "template": v, "nsym": 0, "layout": lay}, "no_dual": True})
    nsyms = (1, 2, 3) if tier == "thorough" else (1, 2)
    for attr, temps in SYM_TEMPLATES.items():
        elems = ATTR_ELEMS[attr]
        for t in temps:
            for n in nsyms:
                for ei, elem in enumerate(elems):
                    if n > 1 and ei > 1 and tier != "thorough":
                        continue
                    lay = layouts[k % 3]
                    k += 1
                    hs.append({"name": "sym/%s/%s/%s/%d" % (elem, attr, t.replace("/", "_"), n), "fn": "h_fault",
                               "params": {"elem": elem, "attr": attr, "template": t, "nsym": n, "layout": lay}, "weight": n * 3})
    for kind in ("dangling", "dangling_xlink", "empty_href", "nohash", "self", "ancestor", "mutual", "mutual_defs", "self_nested"):
        hs.append({"name": "use/%s" % kind, "fn": "h_use", "params": {"kind": kind}, "no_dual": True})
    hs.append({"name": "twin/complete", "fn": "h_twin", "twin": True})
    return hs
