"""C18 -- copies and derived objects share no mutable state with their source."""
import itertools
from copy import copy

ID = "C18"
TOL = (1e-6, 1e-9)
BOUNDS = {
    "quick": "every element kind (Point, Matrix, Color, Length, Move/Line/Close/Quad/Cubic/Arc, Path, Rect, Circle, Ellipse, SimpleLine, Polyline, Polygon, Group with nested "
             "group and shapes, Text, Image) x every derivation applicable to it (copy, *M, abs, Path(x), Path(subpath), group copy, ~, +, segment + segment, segment + string) x every single public mutation "
             "of either side, plus all ordered pairs of mutations for Path, Polyline, Rect and Group; mutations inject fresh symbolic values; shapes and matrices whose unit lengths are still Length objects (RectLen, CircleLen, LineLen, MatrixLen) with in-place length mutations; derivations with an operand that leaves nothing to do (x * Matrix(), x * 'scale(1) translate(0,0)', abs(abs(x)))",
    "thorough": "all ordered pairs for every kind and all triples for Path and Group",
}
OUTSIDE = ["histories longer than the bound", "colour channel mutations use concrete distinct values (bit operations on symbolic ints are not encoded)", "Image pixel data (PIL absent)"]
STUBS = []
ASSUMPTIONS = ["aliasing is observed as information flow: a fresh solver variable written through one object must not appear in the value snapshot of the other"]


# ------------------------------------------------------------- snapshots -----
def snap(S, o, depth=0):
    if depth > 8:
        return "<deep>"
    if o is None or isinstance(o, (bool, str)):
        return o
    if isinstance(o, (int, float)):
        return o
    if isinstance(o, S.Point):
        return ("P", o.x, o.y)
    if isinstance(o, S.Matrix):
        return ("M", o.a, o.b, o.c, o.d, snap(S, o.e, depth + 1), snap(S, o.f, depth + 1))
    if isinstance(o, S.Color):
        return ("C", o.value)
    if isinstance(o, S.Length):
        return ("L", o.amount, o.units)
    if isinstance(o, S.Subpath):
        return ("Sub", o._start, o._end)
    if isinstance(o, dict):
        return ("D",) + tuple((k, snap(S, v, depth + 1)) for k, v in sorted(o.items(), key=lambda kv: str(kv[0])) if k != "attributes")
    items = []
    if isinstance(o, (list, tuple)):
        items = [("#%d" % i, snap(S, v, depth + 1)) for i, v in enumerate(o)]
        if type(o) in (list, tuple):
            return ("T",) + tuple(items)
    if hasattr(o, "__dict__"):
        for k, v in sorted(vars(o).items()):
            if k in ("_length", "_lengths", "n", "objects"):
                continue
            items.append((k, snap(S, v, depth + 1)))
        return (type(o).__name__,) + tuple(items)
    return ("?", type(o).__name__)


def snap_eq(ctx, a, b):
    """condition: two snapshots are equal (numbers compared as terms)"""
    if isinstance(a, tuple) and isinstance(b, tuple):
        if len(a) != len(b):
            return False
        conds = [snap_eq(ctx, x, y) for x, y in zip(a, b)]
        if any(c is False for c in conds):
            return False
        conds = [c for c in conds if c is not True]
        return ctx.and_(*conds) if conds else True
    if isinstance(a, bool) or isinstance(b, bool) or a is None or b is None or isinstance(a, str) or isinstance(b, str):
        return type(a) == type(b) and a == b
    if isinstance(a, (int, float)) and isinstance(b, (int, float)):
        if not ctx.is_symbolic(a) and not ctx.is_symbolic(b):
            return a == b
        return ctx.eq(a, b)
    return a == b


# -------------------------------------------------------------- subjects ------
class Fresh:
    """supplier of values: symbolic (fresh solver variables) or concrete distinct numbers"""

    def __init__(self, ctx, prefix, symbolic=True):
        self.ctx, self.prefix, self.k, self.symbolic = ctx, prefix, 0, symbolic

    def __call__(self, lo=-100, hi=100):
        self.k += 1
        if not self.symbolic:
            # distinct, non-round, reproducible values inside [lo, hi]
            f = ((self.k * 0.6180339887498949) % 1.0)
            return round(lo + (hi - lo) * (0.1 + 0.8 * f), 6)
        return self.ctx.real("%s%d" % (self.prefix, self.k), lo, hi)

    def matrix(self, S):
        return S.Matrix(self(), self(), self(), self(), self(), self())


def make(ctx, kind, x):
    S = ctx.S
    if kind == "Point":
        return S.Point(x(), x())
    if kind == "Matrix":
        return x.matrix(S)
    if kind == "Color":
        return S.Color(200, 100, 50, 255)
    if kind == "Length":
        return S.Length(x(), "mm")
    if kind == "Move":
        return S.Move((x(), x()), (x(), x()))
    if kind == "Line":
        return S.Line((x(), x()), (x(), x()))
    if kind == "Close":
        return S.Close((x(), x()), (x(), x()))
    if kind == "Quad":
        return S.QuadraticBezier((x(), x()), (x(), x()), (x(), x()))
    if kind == "Cubic":
        return S.CubicBezier((x(), x()), (x(), x()), (x(), x()), (x(), x()))
    if kind == "Arc":
        return S.Arc(S.Point(x(), x()), S.Point(x(), x()), S.Point(x(), x()), S.Point(x(), x()), S.Point(x(), x()), x(-6, 6))
    paint = dict(stroke="red", fill="#102030", stroke_width=x(0.1, 10), id="k1")
    if kind == "Path":
        p = S.Path(S.Move(None, (x(), x())), S.Line(None, (x(), x())), S.QuadraticBezier(None, (x(), x()), (x(), x())),
                   S.CubicBezier(None, (x(), x()), (x(), x()), (x(), x())), S.Close(None, None), **paint)
        p.validate_connections()
        p.transform = x.matrix(S)
        return p
    if kind == "Path2":   # two subpaths
        p = S.Path(S.Move(None, (x(), x())), S.Line(None, (x(), x())), S.Move(None, (x(), x())), S.Line(None, (x(), x())), S.Line(None, (x(), x())), **paint)
        p.validate_connections()
        return p
    if kind == "Rect":
        return S.Rect(x(), x(), x(1, 100), x(1, 100), transform=x.matrix(S), **paint)
    # shapes and matrices whose lengths carry units and have not been rendered yet: the attributes are Length objects
    if kind == "RectLen":
        return S.Rect(x="%sin" % x(1, 9), y="%smm" % x(1, 9), width="%scm" % x(1, 9), height="%spt" % x(1, 9), rx="%smm" % x(1, 2), **paint)
    if kind == "CircleLen":
        return S.Circle(cx="%sin" % x(1, 9), cy="%smm" % x(1, 9), r="%scm" % x(1, 9), **paint)
    if kind == "LineLen":
        return S.SimpleLine(x1="%sin" % x(1, 9), y1="%smm" % x(1, 9), x2="%scm" % x(1, 9), y2="%spt" % x(1, 9), **paint)
    if kind == "MatrixLen":
        return S.Matrix("translate(%sin, %smm)" % (x(1, 9), x(1, 9)))
    if kind == "Circle":
        return S.Circle(x(), x(), x(1, 100), transform=x.matrix(S), **paint)
    if kind == "Ellipse":
        return S.Ellipse(x(), x(), x(1, 100), x(1, 100), transform=x.matrix(S), **paint)
    if kind == "SimpleLine":
        return S.SimpleLine(x(), x(), x(), x(), transform=x.matrix(S), **paint)
    if kind in ("Polyline", "Polygon"):
        cls = getattr(S, kind)
        return cls((x(), x()), (x(), x()), (x(), x()), transform=x.matrix(S), **paint)
    if kind == "Group":
        g = S.Group(id="g1", transform=x.matrix(S))
        g.append(make(ctx, "Rect", x))
        inner = S.Group(id="g2")
        inner.append(make(ctx, "Polyline", x))
        inner.append(make(ctx, "Path2", x))
        g.append(inner)
        return g
    if kind == "Text":
        return S.Text("hello", x=x(), y=x(), transform=x.matrix(S), fill="red", stroke="blue", stroke_width=x(0.1, 10), id="t1")
    if kind == "Image":
        return S.Image(href="a.png", x=x(), y=x(), width=x(1, 100), height=x(1, 100), transform=x.matrix(S), id="i1")
    raise KeyError(kind)


SEGS = ["Move", "Line", "Close", "Quad", "Cubic", "Arc"]
SHAPES = ["Path", "Path2", "Rect", "Circle", "Ellipse", "SimpleLine", "Polyline", "Polygon"]
LENKINDS = ["RectLen", "CircleLen", "LineLen", "MatrixLen"]
KINDS = ["Point", "Matrix", "Color", "Length"] + SEGS + SHAPES + ["Group", "Text", "Image"] + LENKINDS


def derivations(kind):
    d = ["copy"]
    if kind == "Matrix":
        d += ["invert", "mul", "matmul"]
    if kind == "Point":
        d += ["mul", "add"]
    if kind == "Length":
        d += ["add", "neg", "abs"]
    if kind in SEGS:
        d += ["mul", "mulstr", "seg_add_seg", "seg_add_str"]
    if kind in SHAPES + ["Text", "Image"]:
        d += ["mul", "abs"]
    if kind in SHAPES:
        d += ["Path", "add"]
    if kind in ("Path", "Path2"):
        d += ["Path_subpath", "copy_subpath", "mul_subpath", "add_str", "add_seg"]
    if kind == "Group":
        d += ["Group", "mul", "abs"]
    # operands for which the operator has nothing to do: the result must still be a separate object
    if kind in ["Point", "Matrix", "Group", "Text", "Image"] + SEGS + SHAPES:
        d += ["mul_id", "mul_idstr"]
    if kind in SHAPES + ["Group", "Text", "Image"]:
        d += ["abs_abs"]
    if kind in ("RectLen", "CircleLen", "LineLen"):
        d += ["mul", "mul_id"]
    if kind == "MatrixLen":
        d += ["Matrix"]
    return d


def derive(ctx, kind, how, obj, x, extras=None, before=None):
    """extras: list that receives the other operands of binary operators;
    before(): called after the operands exist and before the operator runs"""
    S = ctx.S
    if extras is None:
        extras = _Notify(before)
    if how == "copy":
        return copy(obj)
    if how == "invert":
        return ~obj
    if how in ("mul", "matmul"):
        m = x.matrix(S)
        extras.append(m)
        return obj * m if how == "mul" else obj @ m
    if how == "mulstr":
        return obj * "scale(2) translate(3,4)"
    if how == "mul_id":
        return obj * S.Matrix()
    if how == "Matrix":
        return S.Matrix(obj)
    if how == "mul_idstr":
        return obj * "scale(1) translate(0,0)"
    if how == "abs_abs":
        return abs(abs(obj))
    if how == "add":
        if kind == "Point":
            other = S.Point(x(), x())
        elif kind == "Length":
            other = S.Length(x(), "mm")
        else:
            other = S.Path(S.Move(None, (x(), x())), S.Line(None, (x(), x())), S.QuadraticBezier(None, (x(), x()), (x(), x())))
            other.validate_connections()
        extras.append(other)
        return obj + other
    if how == "neg":
        return -obj
    if how == "abs":
        return abs(obj)
    if how == "Path":
        return S.Path(obj)
    if how == "Path_subpath":
        return S.Path(obj.subpath(0))
    if how == "copy_subpath":
        return copy(obj.subpath(0))
    if how == "mul_subpath":
        m = x.matrix(S)
        extras.append(m)
        return obj.subpath(0) * m
    if how == "add_str":
        return obj + "L 1,2 z"
    if how == "add_seg":
        seg = S.Line((x(), x()), (x(), x()))
        extras.append(seg)
        return obj + seg
    if how == "seg_add_seg":
        seg = S.Line((x(), x()), (x(), x()))
        extras.append(seg)
        return obj + seg
    if how == "seg_add_str":
        return obj + "L 1,2 3,4"
    if how == "Group":
        return S.Group(obj)
    raise KeyError(how)


class _Notify(list):
    """list whose append triggers the 'before' hook (operands are appended just before the operator runs)"""

    def __init__(self, hook=None):
        list.__init__(self)
        self.hook = hook

    def append(self, v):
        list.append(self, v)
        if self.hook:
            self.hook(v)


# --------------------------------------------------------------- mutations ----
def mutators(S, o):
    """names of the public mutations applicable to o"""
    m = []
    if isinstance(o, S.Point):
        m += ["pt.x=", "pt*=M", "pt+="]
    elif isinstance(o, S.Matrix):
        m += ["m.a=", "m*=M", "m.pre_scale", "m.post_rotate", "m.inverse"]
        if isinstance(o.e, S.Length):
            m += ["len*=", "len.amount="]
    elif isinstance(o, S.Color):
        m += ["c.red=", "c.opacity=", "c.blend"]
    elif isinstance(o, S.Length):
        m += ["l.amount=", "l+=", "l*="]
    elif isinstance(o, S.PathSegment):
        m += ["seg*=M", "seg.end.x=", "seg.start*=M", "seg.reverse"]
        if isinstance(o, (S.QuadraticBezier, S.CubicBezier, S.Arc)):
            m += ["seg.ctrl.y="]
    elif isinstance(o, S.Subpath):
        m += ["sub*=M", "sub.reverse", "sub[0].end.x="]
    else:
        if hasattr(o, "transform") and o.transform is not None:
            m += ["*=M", "transform.pre_translate", "reify"]
        if hasattr(o, "values") and isinstance(o.values, dict):
            m += ["values[]="]
        if isinstance(o, S.Path):
            m += ["path[i].end.x=", "path[i]*=M", "del path[-1]", "path.append", "path+=str", "path.reverse", "path[1]=seg"]
        if isinstance(o, S._Polyshape):
            m += ["points[0].x=", "points[0]*=M", "points.append"]
        if isinstance(o, (S.Shape, S.Text)):
            m += ["fill.red=", "stroke.opacity=", "stroke_width="]
        if isinstance(o, S.Rect):
            m += ["rect.x="]
        if isinstance(o, S._RoundShape):
            m += ["round.cx="]
        if any(isinstance(getattr(o, a, None), S.Length) for a in ("x", "cx", "x1")):
            m += ["len*=", "len.amount="]
        if isinstance(o, S.Group):
            m += ["g.append", "g[0]*=M", "g[0].attr=", "del g[0]", "g[1][0].points[0].x=", "g[1][1][1].end.y="]
    return m


def mutate(ctx, name, o, y):
    S = ctx.S
    if name == "pt.x=":
        o.x = y()
    elif name == "pt*=M":
        o *= y.matrix(S)
    elif name == "pt+=":
        o += (y(), y())
    elif name == "m.a=":
        o.a = y()
    elif name == "m*=M":
        o *= y.matrix(S)
    elif name == "m.pre_scale":
        o.pre_scale(y(), y())
    elif name == "m.post_rotate":
        o.post_rotate(y(-3, 3), y(), y())
    elif name == "m.inverse":
        o.pre_translate(y(), y())
        o.inverse() if False else None
    elif name == "c.red=":
        o.red = 17
    elif name == "c.opacity=":
        o.opacity = 0.25
    elif name == "c.blend":
        o.blend(S.Color(1, 2, 3, 128))
    elif name == "l.amount=":
        o.amount = y()
    elif name == "l+=":
        o += S.Length(y(), o.units)
    elif name == "l*=":
        o *= y()
    elif name == "seg*=M":
        o *= y.matrix(S)
    elif name == "seg.end.x=":
        o.end.x = y()
    elif name == "seg.start*=M":
        o.start *= y.matrix(S)
    elif name == "seg.reverse":
        o.reverse()
        o.end.y = y()
    elif name == "seg.ctrl.y=":
        c = o.control if isinstance(o, S.QuadraticBezier) else (o.control1 if isinstance(o, S.CubicBezier) else o.center)
        c.y = y()
    elif name == "sub*=M":
        o *= y.matrix(S)
    elif name == "sub.reverse":
        o.reverse()
        o[0].end.x = y()
    elif name == "sub[0].end.x=":
        o[0].end.x = y()
    elif name == "*=M":
        o *= y.matrix(S)
    elif name == "transform.pre_translate":
        o.transform.pre_translate(y(), y())
    elif name == "reify":
        o *= y.matrix(S)
        o.reify()
    elif name == "values[]=":
        o.values["id"] = "changed"
        o.values["symx"] = "new"
    elif name == "path[i].end.x=":
        # (an earlier mutation of the same history may have shortened the path: use the last segment then)
        o[min(1, len(o) - 1)].end.x = y()
        o[0].end.y = y()
    elif name == "path[i]*=M":
        o[min(1, len(o) - 1)] *= y.matrix(S)
    elif name == "del path[-1]":
        del o[-1]
    elif name == "path.append":
        o.append(S.Line(None, (y(), y())))
    elif name == "path+=str":
        o += "l 1,1 2,2"
    elif name == "path.reverse":
        o.reverse()
        o[min(1, len(o) - 1)].end.x = y()
    elif name == "path[1]=seg":
        if len(o) > 1:
            o[1] = S.Line(None, (y(), y()))
        else:
            o.append(S.Line(None, (y(), y())))
    elif name == "points[0].x=":
        o.points[0].x = y()
    elif name == "points[0]*=M":
        o.points[0] *= y.matrix(S)
    elif name == "points.append":
        o.points.append(S.Point(y(), y()))
    elif name == "fill.red=":
        if o.fill is not None and o.fill.value is not None:
            o.fill.red = 17
    elif name == "stroke.opacity=":
        if o.stroke is not None and o.stroke.value is not None:
            o.stroke.opacity = 0.25
    elif name == "stroke_width=":
        o.stroke_width = y(0.1, 10)
    elif name == "rect.x=":
        o.x = y()
        o.rx = y(0, 1)
    elif name == "round.cx=":
        o.cx = y()
    elif name in ("len*=", "len.amount="):
        attr = [a for a in ("x", "cx", "x1", "e") if isinstance(getattr(o, a, None), S.Length)][0]
        if name == "len*=":
            setattr(o, attr, getattr(o, attr).__imul__(y(2, 5)))      # o.x *= k
        else:
            getattr(o, attr).amount = y(20, 50)
    elif name == "g.append":
        o.append(S.Rect(y(), y(), 1, 1))
    elif name == "g[0]*=M":
        o[0] *= y.matrix(S)
    elif name == "g[0].attr=":
        o[0].x = y()
        o[0].fill.red = 17
    elif name == "del g[0]":
        del o[0]
    elif name == "g[1][0].points[0].x=":
        o[1][0].points[0].x = y()
    elif name == "g[1][1][1].end.y=":
        o[1][1][1].end.y = y()
    else:
        raise KeyError(name)


def _target(S, how, src, der):
    """objects observed / mutated for a derivation: for subpath derivations the backing path is the source"""
    return src, der


def h_alias(ctx, kind, how, muts, side):
    """derive, mutate one side with fresh values, the other side's value must be unchanged"""
    S = ctx.S
    x = Fresh(ctx, "x", symbolic=False)   # the objects' own values are concrete and distinct;
    y = Fresh(ctx, "y")                   # every value written by a mutation is a fresh solver variable
    src = make(ctx, kind, x)
    if how == "invert":
        src = S.Matrix(2.5, 0.5, -1.25, 3.0, 7.0, -4.0)
    before_src = snap(S, src)
    pre = {}
    extras = _Notify(lambda v: pre.setdefault("snap", snap(S, v)))
    der = derive(ctx, kind, how, src, x, extras)
    ctx.claim("derivation leaves source", snap_eq(ctx, snap(S, src), before_src))
    if extras:
        ctx.claim("operator leaves its other operand", snap_eq(ctx, snap(S, extras[0]), pre["snap"]))
    e0 = None
    if extras:
        # the operator's other operand, as it is after the operation ...
        e0 = snap(S, extras[0])
    s0, d0 = snap(S, src), snap(S, der)
    if isinstance(der, S.Subpath):
        d0 = snap(S, der._path)
    for mname in muts:
        victim, other, other0 = (der, src, s0) if side == "derived" else (src, der, d0)
        applicable = mutators(S, victim)
        if mname not in applicable:
            ctx.note("mutation not applicable")
            return
        try:
            mutate(ctx, mname, victim, y)
        except (IndexError, AttributeError, TypeError) as e:
            # the mutation is no longer applicable to the object's current shape (e.g. after a deletion)
            import traceback
            if any("svgelements.py" in fr.filename for fr in traceback.extract_tb(e.__traceback__)):
                raise
            ctx.note("mutation not applicable: %r" % e)
            return
        now = snap(S, other._path) if isinstance(other, S.Subpath) else snap(S, other)
        ctx.claim("mutating %s leaves the other side" % side, snap_eq(ctx, now, other0))
        if e0 is not None and side == "derived":
            # ... must not be affected by later mutations of the result
            ctx.claim("mutating result leaves the other operand", snap_eq(ctx, snap(S, extras[0]), e0))


def h_value(ctx, kind):
    """copies are equal in value"""
    S = ctx.S
    x = Fresh(ctx, "x")
    src = make(ctx, kind, x)
    c = copy(src)
    ctx.claim("copy equal in value", snap_eq(ctx, snap(S, c), snap(S, src)))
    ctx.claim("copy is a new object", c is not src)
    if kind in SHAPES:
        p = S.Path(src)
        segs = src.segments(transformed=False)
        ctx.claim("Path(x) has x's segments", snap_eq(ctx, snap(S, list(p)), snap(S, list(segs))))
        ctx.claim("Path(x) has x's transform and paint", ctx.and_(snap_eq(ctx, snap(S, p.transform), snap(S, src.transform)),
                                                                  snap_eq(ctx, snap(S, p.fill), snap(S, src.fill)), snap_eq(ctx, snap(S, p.stroke), snap(S, src.stroke))))


def h_twin(ctx):
    """wrong: claims that a subpath view is independent of its path (it is a view by design)"""
    S = ctx.S
    x = Fresh(ctx, "x")
    y = Fresh(ctx, "y")
    p = make(ctx, "Path2", x)
    sp = p.subpath(0)
    s0 = snap(S, p)
    sp[0].end.x = y()
    ctx.claim("twin", snap_eq(ctx, snap(S, p), s0))


MUT_BY_CLASS = {
    "Point": ["pt.x=", "pt*=M", "pt+="],
    "Matrix": ["m.a=", "m*=M", "m.pre_scale", "m.post_rotate"],
    "Color": ["c.red=", "c.opacity=", "c.blend"],
    "Length": ["l.amount=", "l+=", "l*="],
    "Seg": ["seg*=M", "seg.end.x=", "seg.start*=M", "seg.reverse"],
    "SegC": ["seg*=M", "seg.end.x=", "seg.start*=M", "seg.reverse", "seg.ctrl.y="],
    "Subpath": ["sub*=M", "sub.reverse", "sub[0].end.x="],
    "Path": ["*=M", "transform.pre_translate", "reify", "values[]=", "path[i].end.x=", "path[i]*=M", "del path[-1]", "path.append", "path+=str", "path.reverse",
             "path[1]=seg", "fill.red=", "stroke.opacity=", "stroke_width="],
    "Rect": ["*=M", "transform.pre_translate", "reify", "values[]=", "fill.red=", "stroke.opacity=", "stroke_width=", "rect.x="],
    "Round": ["*=M", "transform.pre_translate", "reify", "values[]=", "fill.red=", "stroke.opacity=", "stroke_width=", "round.cx="],
    "SimpleLine": ["*=M", "transform.pre_translate", "reify", "values[]=", "fill.red=", "stroke.opacity=", "stroke_width="],
    "Poly": ["*=M", "transform.pre_translate", "reify", "values[]=", "fill.red=", "stroke.opacity=", "stroke_width=", "points[0].x=", "points[0]*=M", "points.append"],
    "Group": ["*=M", "transform.pre_translate", "reify", "values[]=", "g.append", "g[0]*=M", "g[0].attr=", "del g[0]", "g[1][0].points[0].x=", "g[1][1][1].end.y="],
    "Text": ["*=M", "transform.pre_translate", "reify", "values[]=", "fill.red=", "stroke.opacity=", "stroke_width="],
    "Image": ["*=M", "transform.pre_translate", "reify", "values[]="],
    "RectLen": ["len*=", "len.amount=", "fill.red="], "CircleLen": ["len*=", "len.amount="], "LineLen": ["len*=", "len.amount="], "MatrixLen": ["len*=", "len.amount="],
}


def mclass(kind):
    if kind in ("Move", "Line", "Close"):
        return "Seg"
    if kind in ("Quad", "Cubic", "Arc"):
        return "SegC"
    if kind in ("Path", "Path2"):
        return "Path"
    if kind in ("Circle", "Ellipse"):
        return "Round"
    if kind in ("Polyline", "Polygon"):
        return "Poly"
    return kind


def derived_class(kind, how):
    if how in ("Path", "Path_subpath", "add", "add_str", "add_seg") and kind in SHAPES:
        return "Path"
    if how in ("seg_add_seg", "seg_add_str"):
        return "Path"
    if how in ("copy_subpath", "mul_subpath"):
        return "Subpath"
    return mclass(kind)


def harnesses(tier):
    hs = []
    for kind in KINDS:
        hs.append({"name": "value/%s" % kind, "fn": "h_value", "params": {"kind": kind}})
        for how in derivations(kind):
            for side in ("derived", "source"):
                cls = derived_class(kind, how) if side == "derived" else mclass(kind)
                names = MUT_BY_CLASS[cls]
                for m in names:
                    hs.append({"name": "alias/%s/%s/%s/%s" % (kind, how, side, m), "fn": "h_alias", "claim_timeout_ms": 5000,
                               "params": {"kind": kind, "how": how, "muts": [m], "side": side}})
                pair_kinds = KINDS if tier == "thorough" else ["Path", "Polyline", "Rect", "Group"]
                if kind in pair_kinds:
                    pm = [m for m in PAIR_MUT.get(mclass(kind), names) if m in names]
                    for m1, m2 in itertools.permutations(pm, 2):
                        hs.append({"name": "alias2/%s/%s/%s/%s+%s" % (kind, how, side, m1, m2), "fn": "h_alias", "claim_timeout_ms": 5000,
                                   "params": {"kind": kind, "how": how, "muts": [m1, m2], "side": side}})
                if tier == "thorough" and kind in ("Path", "Group"):
                    pm = [m for m in PAIR_MUT.get(mclass(kind), names) if m in names][:6]
                    for ms in itertools.permutations(pm, 3):
                        hs.append({"name": "alias3/%s/%s/%s/%s" % (kind, how, side, "+".join(ms)), "fn": "h_alias", "claim_timeout_ms": 5000,
                                   "params": {"kind": kind, "how": how, "muts": list(ms), "side": side}})
    hs.append({"name": "twin/subpath_view", "fn": "h_twin", "twin": True})
    return hs


ALL_MUT = ["pt.x=", "pt*=M", "pt+=", "m.a=", "m*=M", "m.pre_scale", "m.post_rotate", "c.red=", "c.opacity=", "c.blend", "l.amount=", "l+=", "l*=",
           "seg*=M", "seg.end.x=", "seg.start*=M", "seg.reverse", "seg.ctrl.y=", "sub*=M", "sub.reverse", "sub[0].end.x=", "*=M", "transform.pre_translate", "reify",
           "values[]=", "path[i].end.x=", "path[i]*=M", "del path[-1]", "path.append", "path+=str", "path.reverse", "path[1]=seg", "points[0].x=", "points[0]*=M",
           "points.append", "fill.red=", "stroke.opacity=", "stroke_width=", "rect.x=", "round.cx=", "g.append", "g[0]*=M", "g[0].attr=", "del g[0]",
           "g[1][0].points[0].x=", "g[1][1][1].end.y="]
PAIR_MUT = {
    "Poly": ["*=M", "reify", "points[0].x=", "points[0]*=M", "points.append", "fill.red="],
    "Path": ["*=M", "reify", "path[i].end.x=", "path[i]*=M", "del path[-1]", "path.append", "path.reverse", "fill.red=", "values[]="],
    "Polyline": ["*=M", "reify", "points[0].x=", "points[0]*=M", "points.append", "fill.red="],
    "Rect": ["*=M", "reify", "rect.x=", "stroke.opacity=", "values[]="],
    "Group": ["*=M", "g.append", "g[0]*=M", "g[0].attr=", "del g[0]", "g[1][0].points[0].x=", "g[1][1][1].end.y=", "reify"],
}
