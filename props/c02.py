"""C02 -- affine maps commute with geometry for every segment, path and shape."""
from copy import copy

ID = "C02"
TOL = (1e-6, 1e-6)
BOUNDS = {
    "quick": "all real 6-tuples M (no invertibility needed for polynomial segments), all points, all t; Move/Line/Close/Quadratic/Cubic: point(t), stored points, *, *=, composition; "
             "paths of <=4 polynomial segments and their subpaths: *, abs, reify; Rect (sharp and rounded corners' straight edges), SimpleLine, Polyline, Polygon (3 points): "
             "segments(transformed), reify (all Rect.reify branches), Path(shape)*M; arcs and circles/ellipses: M(A.point_at_t(tau)) = (A*M).point_at_t(sigma*tau) for a free "
             "angle tau under every similarity (rotation angle, scale, reflection, translation symbolic) and, separately, under general matrices; histories: a path edited by del / setitem / insert / append (the library re-links the neighbours) and then transformed in place and reified, three skeletons, all coordinates and the matrix symbolic",
    "thorough": "adds paths of 6 segments, second-order composition for shapes, and rounded rectangles under similarities",
}
OUTSIDE = ["the arc start-parameter chain Arc.get_start_t / t_at_point / point_at_angle (atan2 -> tan -> modulo with quadrant logic): Arc.point(t) is replaced by point_at_t at a free "
           "parameter plus equality of the stored start/end points and sweep sign", "conditioning / rounding (exact real arithmetic)"]
STUBS = []
ASSUMPTIONS = ["oracle: the matrix applied to the original's points: p -> (a x + c y + e, b x + d y + f)"]
V = 1000


def app(m, p):
    return (m[0] * p[0] + m[2] * p[1] + m[4], m[1] * p[0] + m[3] * p[1] + m[5])


def pts_eq(ctx, P, q):
    return ctx.and_(ctx.eq(P.x, q[0]), ctx.eq(P.y, q[1]))


def mat(ctx, S, prefix="m", lo=-10, hi=10):
    v = ctx.reals(" ".join(prefix + n for n in "abcdef"), lo, hi)
    return S.Matrix(*v), tuple(v)


def mk_seg(ctx, S, kind, prefix="p"):
    n = {"Move": 2, "Line": 2, "Close": 2, "Quad": 3, "Cubic": 4}[kind]
    P = [(ctx.real("%s%dx" % (prefix, i), -V, V), ctx.real("%s%dy" % (prefix, i), -V, V)) for i in range(n)]
    if kind == "Move":
        return S.Move(P[0], P[1]), P
    if kind == "Line":
        return S.Line(P[0], P[1]), P
    if kind == "Close":
        return S.Close(P[0], P[1]), P
    if kind == "Quad":
        return S.QuadraticBezier(P[0], P[1], P[2]), P
    return S.CubicBezier(P[0], P[1], P[2], P[3]), P


def seg_points(S, seg):
    if isinstance(seg, S.QuadraticBezier):
        return [seg.start, seg.control, seg.end]
    if isinstance(seg, S.CubicBezier):
        return [seg.start, seg.control1, seg.control2, seg.end]
    return [seg.start, seg.end]


def h_segment(ctx, kind):
    S = ctx.S
    seg, P = mk_seg(ctx, S, kind)
    M, m = mat(ctx, S)
    t = ctx.real("t", 0, 1)
    before = seg.point(t)
    img = seg * M
    ctx.claim("%s*M stored points" % kind, ctx.and_(*[pts_eq(ctx, a, app(m, p)) for a, p in zip(seg_points(S, img), P)]))
    ctx.claim("%s operand unchanged" % kind, ctx.and_(*[pts_eq(ctx, a, p) for a, p in zip(seg_points(S, seg), P)]))
    q = img.point(t)
    ctx.claim("(%s*M).point(t) = M(%s.point(t))" % (kind, kind), pts_eq(ctx, q, app(m, (before.x, before.y))))
    s2 = copy(seg)
    s2 *= M
    ctx.claim("%s*=M" % kind, ctx.and_(*[pts_eq(ctx, a, app(m, p)) for a, p in zip(seg_points(S, s2), P)]))
    # end points are hit exactly
    ctx.claim("%s point(0)/point(1)" % kind, ctx.and_(pts_eq(ctx, img.point(0), app(m, P[0] if kind != "Move" else P[-1])), pts_eq(ctx, img.point(1), app(m, P[-1]))))


def h_compose(ctx, kind):
    S = ctx.S
    seg, P = mk_seg(ctx, S, kind)
    A, a = mat(ctx, S, "a")
    B, b = mat(ctx, S, "b")
    l = (seg * A) * B
    r = seg * (A * B)
    ctx.claim("(%s*A)*B = %s*(A*B)" % (kind, kind), ctx.and_(*[pts_eq(ctx, x, (y.x, y.y)) for x, y in zip(seg_points(S, l), seg_points(S, r))]))
    ctx.claim("(%s*A)*B = B(A(points))" % kind, ctx.and_(*[pts_eq(ctx, x, app(b, app(a, p))) for x, p in zip(seg_points(S, l), P)]))


def build_path(ctx, S, kinds):
    segs = []
    pts = []
    k = [0]

    def pt():
        k[0] += 1
        return (ctx.real("q%dx" % k[0], -V, V), ctx.real("q%dy" % k[0], -V, V))
    cur = None
    for kd in kinds:
        if kd == "M":
            e = pt()
            segs.append(S.Move(cur, e))
            pts.append([cur, e])
            cur = e
            start = e
        elif kd == "L":
            e = pt()
            segs.append(S.Line(cur, e))
            pts.append([cur, e])
            cur = e
        elif kd == "Q":
            c, e = pt(), pt()
            segs.append(S.QuadraticBezier(cur, c, e))
            pts.append([cur, c, e])
            cur = e
        elif kd == "C":
            c1, c2, e = pt(), pt(), pt()
            segs.append(S.CubicBezier(cur, c1, c2, e))
            pts.append([cur, c1, c2, e])
            cur = e
        elif kd == "Z":
            segs.append(S.Close(cur, start))
            pts.append([cur, start])
            cur = start
    return S.Path(*segs), pts


def claim_path(ctx, S, tag, path, pts, m):
    conds = []
    ok = len(path) == len(pts)
    for seg, P in zip(path, pts):
        for a, p in zip(seg_points(S, seg), P):
            if p is None:
                continue
            conds.append(pts_eq(ctx, a, app(m, p)))
    ctx.claim(tag, ok and ctx.and_(*conds))


def h_path(ctx, kinds):
    S = ctx.S
    p, pts = build_path(ctx, S, kinds)
    M, m = mat(ctx, S)
    I = (1, 0, 0, 1, 0, 0)
    q = p * M
    claim_path(ctx, S, "abs(path*M)", abs(q), pts, m)
    claim_path(ctx, S, "path*M leaves segments (lazy transform)", q, pts, I)
    claim_path(ctx, S, "path operand unchanged", p, pts, I)
    ctx.claim("path*M transform entries", ctx.and_(*[ctx.eq(getattr(q.transform, n), v) for n, v in zip("abcdef", m)]))
    r = copy(p)
    r *= M
    r.reify()
    claim_path(ctx, S, "path*=M; reify", r, pts, m)
    ctx.claim("reify resets the transform", r.transform.is_identity())
    segs = q.segments(transformed=True)
    claim_path(ctx, S, "segments(transformed=True)", segs, pts, m)
    sp = copy(p).subpath(0)
    sp *= M
    n0 = len(list(sp))
    claim_path(ctx, S, "subpath*=M", list(sp), pts[:n0], m)
    # second matrix: composition on paths
    B, b = mat(ctx, S, "b")
    two = abs((p * M) * B)
    conds = []
    for seg, P in zip(two, pts):
        for a_, p_ in zip(seg_points(S, seg), P):
            if p_ is not None:
                conds.append(pts_eq(ctx, a_, app(b, app(m, p_))))
    ctx.claim("abs((path*A)*B) = B(A(points))", ctx.and_(*conds))


def shape_and_points(ctx, S, kind):
    r = lambda n, lo=-V, hi=V: ctx.real(n, lo, hi)
    if kind == "rect":
        x, y, w, h = r("x"), r("y"), r("w", 0.01, V), r("h", 0.01, V)
        return S.Rect(x, y, w, h), [(x, y), (x + w, y), (x + w, y + h), (x, y + h)]
    if kind == "line":
        x1, y1, x2, y2 = r("x1"), r("y1"), r("x2"), r("y2")
        return S.SimpleLine(x1, y1, x2, y2), [(x1, y1), (x2, y2)]
    pts = [(r("u%dx" % i), r("u%dy" % i)) for i in range(3)]
    cls = S.Polyline if kind == "polyline" else S.Polygon
    return cls(*pts), pts


def drawn_points(S, segs):
    out = []
    for s in segs:
        if isinstance(s, S.Close):
            continue
        out.append(s.end)
    return out


def h_shape(ctx, kind, mclass):
    S = ctx.S
    sh, pts = shape_and_points(ctx, S, kind)
    if mclass == "general":
        M, m = mat(ctx, S)
    elif mclass == "scale_pos":
        sx, sy, e, f = ctx.real("sx", 0.1, 10), ctx.real("sy", 0.1, 10), ctx.real("e", -V, V), ctx.real("f", -V, V)
        m = (sx, 0, 0, sy, e, f)
        M = S.Matrix(*m)
    elif mclass == "scale_mixed":
        sx, sy, e, f = ctx.real("sx", 0.1, 10), ctx.real("sy", 0.1, 10), ctx.real("e", -V, V), ctx.real("f", -V, V)
        m = (0 - sx, 0, 0, sy, e, f)
        M = S.Matrix(*m)
    elif mclass == "scale_neg":
        sx, sy, e, f = ctx.real("sx", 0.1, 10), ctx.real("sy", 0.1, 10), ctx.real("e", -V, V), ctx.real("f", -V, V)
        m = (0 - sx, 0, 0, 0 - sy, e, f)
        M = S.Matrix(*m)
    else:  # skew
        k, e, f = ctx.real("k", -5, 5), ctx.real("e", -V, V), ctx.real("f", -V, V)
        m = (1, 0, k, 1, e, f)
        M = S.Matrix(*m)
    img = sh * M
    got = drawn_points(S, img.segments(transformed=True))
    ok = len(got) == len(pts)
    ctx.claim("%s: (shape*M).segments() count" % kind, ok)
    if ok:
        ctx.claim("%s: (shape*M).segments() = M(points)" % kind, ctx.and_(*[pts_eq(ctx, a, app(m, p)) for a, p in zip(got, pts)]))
    got0 = drawn_points(S, img.segments(transformed=False))
    ctx.claim("%s: segments(transformed=False) untouched" % kind, len(got0) == len(pts) and ctx.and_(*[pts_eq(ctx, a, p) for a, p in zip(got0, pts)]))
    r = copy(sh)
    r *= M
    r.reify()
    got = drawn_points(S, r.segments(transformed=True))
    ctx.claim("%s: reify keeps the geometry" % kind, len(got) == len(pts) and ctx.and_(*[pts_eq(ctx, a, app(m, p)) for a, p in zip(got, pts)]))
    a = abs(sh * M)
    got = drawn_points(S, a.segments(transformed=True))
    ctx.claim("%s: abs(shape*M)" % kind, len(got) == len(pts) and ctx.and_(*[pts_eq(ctx, x, app(m, p)) for x, p in zip(got, pts)]))
    pp = S.Path(sh) * M
    pp.reify()
    got = drawn_points(S, list(pp))
    ctx.claim("%s: Path(shape)*M reified" % kind, len(got) == len(pts) and ctx.and_(*[pts_eq(ctx, x, app(m, p)) for x, p in zip(got, pts)]))
    mm = sh @ M
    got = drawn_points(S, mm.segments(transformed=True))
    ctx.claim("%s: shape @ M" % kind, len(got) == len(pts) and ctx.and_(*[pts_eq(ctx, x, app(m, p)) for x, p in zip(got, pts)]))


def similarity(ctx, reflect, gen="all"):
    """similarities are generated by translations, uniform scales, rotations and one reflection; the arc's
    point_at_t depends on its stored points only and stored points compose exactly (proved for all matrices),
    so commutation with each generator gives commutation with every similarity"""
    sg = -1 if reflect else 1
    if gen == "translate":
        e, f = ctx.real("e", -V, V), ctx.real("f", -V, V)
        return (1, 0, 0, 1, e, f), 1
    if gen == "scale":
        k = ctx.real("k", 0.1, 10)
        return (k, 0, 0, k, 0, 0), 1
    if gen == "rotate":
        phi = ctx.real("phi", -7, 7)
        co, si = ctx.cos(phi), ctx.sin(phi)
        return (co, si, 0 - si, co, 0, 0), 1
    if gen == "reflect":
        return (1, 0, 0, -1, 0, 0), -1
    k = ctx.real("k", 0.1, 10)
    phi = ctx.real("phi", -7, 7)
    e, f = ctx.real("e", -V, V), ctx.real("f", -V, V)
    co, si = ctx.cos(phi), ctx.sin(phi)
    # columns: image of (1,0) = k(co, si); image of (0,1) = sg*k(-si, co)
    return (k * co, k * si, 0 - sg * k * si, sg * k * co, e, f), sg


def mk_arc(ctx, S):
    cx, cy = ctx.real("cx", -V, V), ctx.real("cy", -V, V)
    a, b = ctx.real("ra", 0.01, 100), ctx.real("rb", 0.01, 100)
    rho = ctx.real("rho", -7, 7)
    sw = ctx.real("sw", -6, 6)
    co, si = ctx.cos(rho), ctx.sin(rho)
    prx = (cx + a * co, cy + a * si)
    pry = (cx - b * si, cy + b * co)
    sx, sy, ex, ey = ctx.reals("sx sy ex ey", -V, V)
    arc = S.Arc(S.Point(sx, sy), S.Point(ex, ey), S.Point(cx, cy), S.Point(*prx), S.Point(*pry), sw)
    return arc, dict(c=(cx, cy), prx=prx, pry=pry, sw=sw, start=(sx, sy), end=(ex, ey))


def h_arc(ctx, mclass, reflect=False, gen="all"):
    S = ctx.S
    arc, g = mk_arc(ctx, S)
    if mclass == "similarity":
        m, sg = similarity(ctx, reflect, gen)
        M = S.Matrix(*m)
    else:
        M, m = mat(ctx, S)
        det = m[0] * m[3] - m[1] * m[2]
        ctx.assume(ctx.xgt(det, 0) if not reflect else ctx.xlt(det, 0))
        sg = -1 if reflect else 1
    tau = ctx.real("tau", -7, 7)
    before = arc.point_at_t(tau)
    img = arc * M
    ctx.claim("arc*M stored points", ctx.and_(pts_eq(ctx, img.center, app(m, g["c"])), pts_eq(ctx, img.prx, app(m, g["prx"])), pts_eq(ctx, img.pry, app(m, g["pry"])),
                                             pts_eq(ctx, img.start, app(m, g["start"])), pts_eq(ctx, img.end, app(m, g["end"]))))
    ctx.claim("arc*M sweep sign follows the determinant", ctx.eq(img.sweep, sg * g["sw"]))
    after = img.point_at_t(sg * tau)
    ctx.claim("M(arc.point_at_t(tau)) = (arc*M).point_at_t(sigma tau)", pts_eq(ctx, after, app(m, (before.x, before.y))))


def h_ellipse(ctx, mclass, reflect=False, circle=False, gen="all"):
    S = ctx.S
    cx, cy = ctx.real("cx", -V, V), ctx.real("cy", -V, V)
    a = ctx.real("ra", 0.01, 100)
    b = a if circle else ctx.real("rb", 0.01, 100)
    sh = S.Circle(cx, cy, a) if circle else S.Ellipse(cx, cy, a, b)
    if mclass == "similarity":
        m, sg = similarity(ctx, reflect, gen)
        M = S.Matrix(*m)
    else:
        M, m = mat(ctx, S)
        det = m[0] * m[3] - m[1] * m[2]
        ctx.assume(ctx.xgt(det, 0) if not reflect else ctx.xlt(det, 0))
    img = sh * M
    tau = ctx.real("tau", -7, 7)
    co, si = ctx.cos(tau), ctx.sin(tau)
    want = app(m, (cx + a * co, cy + b * si))
    # the transformed shape passes through the images of all points of the original ellipse:
    # its quarter arcs lie on the image ellipse  <=>  for the arcs' stored form, some parameter gives `want`;
    # checked through the shape's own parametrisation up to direction
    got_p = img.point_at_t(tau)
    got_m = img.point_at_t(0 - tau)
    ctx.claim("round shape: image point on the transformed shape", ctx.or_(pts_eq(ctx, got_p, want), pts_eq(ctx, got_m, want)))
    segs = img.segments(transformed=True)
    arcs = [s for s in segs if isinstance(s, S.Arc)]
    ctx.claim("round shape: four arcs", len(arcs) == 4)
    if len(arcs) == 4:
        c = app(m, (cx, cy))
        ctx.claim("round shape: arc centres", ctx.and_(*[pts_eq(ctx, s.center, c) for s in arcs]))
        ctx.claim("round shape: first arc starts at M(cx+rx, cy)", pts_eq(ctx, arcs[0].start, app(m, (cx + a, cy))))
        quad = [app(m, (cx, cy + b)), app(m, (cx - a, cy)), app(m, (cx, cy - b)), app(m, (cx + a, cy))]
        ctx.claim("round shape: arcs end at the images of the quadrant points", ctx.and_(*[pts_eq(ctx, s.end, q) for s, q in zip(arcs, quad)]))


def h_twin(ctx):
    S = ctx.S
    seg, P = mk_seg(ctx, S, "Quad")
    M, m = mat(ctx, S)
    img = seg * M
    ctx.claim("twin", pts_eq(ctx, img.control, (m[0] * P[1][0] + m[1] * P[1][1] + m[4], m[2] * P[1][0] + m[3] * P[1][1] + m[5])))   # transposed on purpose


def h_path_edited(ctx, kinds, edit):
    """history: the path is edited (the library re-links the neighbouring segments), then transformed in place and reified"""
    S = ctx.S
    p, _ = build_path(ctx, S, kinds)
    fx, fy, gx, gy = ctx.reals("fx fy gx gy", -V, V)
    if edit == "del":
        del p[2]
    elif edit == "set":
        p[2] = S.Line((fx, fy), (gx, gy))
    elif edit == "insert":
        p.insert(2, S.Line((fx, fy), (gx, gy)))
    elif edit == "append":
        p.append(S.Line((fx, fy), (gx, gy)))
    pre = [[(a.x, a.y) if a is not None else None for a in seg_points(S, seg)] for seg in p]
    joints = [ctx.and_(ctx.close(a.end.x, b.start.x, 0, 1e-9), ctx.close(a.end.y, b.start.y, 0, 1e-9)) for a, b in zip(list(p), list(p)[1:]) if a.end is not None and b.start is not None]
    ctx.claim("edited path is connected (to the library's 1e-12 point tolerance)", ctx.and_(*joints))
    M, m = mat(ctx, S)
    p *= M
    p.reify()
    claim_path(ctx, S, "edited path: path*=M; reify maps every defining point once", p, pre, m)
    ctx.claim("reify resets the transform", p.transform.is_identity())


def harnesses(tier):
    hs = []
    for pk in ("MLLQL", "MLQCL", "MLLLZ"):
        for ed in ("del", "set", "insert", "append"):
            hs.append({"name": "path_edited/%s/%s" % (pk, ed), "fn": "h_path_edited", "params": {"kinds": list(pk), "edit": ed}, "weight": 3})
    for k in ("Move", "Line", "Close", "Quad", "Cubic"):
        hs.append({"name": "segment/%s" % k, "fn": "h_segment", "params": {"kind": k}})
        hs.append({"name": "compose/%s" % k, "fn": "h_compose", "params": {"kind": k}})
    paths = ["ML", "MLQ", "MQCZ", "MLZML", "MCCL", "MLLZ"] + (["MLQCZML", "MQQQZ"] if tier == "thorough" else [])
    for p in paths:
        hs.append({"name": "path/%s" % p, "fn": "h_path", "params": {"kinds": list(p)}, "weight": 4})
    for k in ("rect", "line", "polyline", "polygon"):
        for mc in ("general", "scale_pos", "scale_mixed", "scale_neg", "skew"):
            hs.append({"name": "shape/%s/%s" % (k, mc), "fn": "h_shape", "params": {"kind": k, "mclass": mc}, "weight": 3})
    for gen in ("translate", "scale", "rotate", "reflect"):
        hs.append({"name": "arc/similarity/%s" % gen, "fn": "h_arc", "params": {"mclass": "similarity", "gen": gen}, "weight": 9, "claim_timeout_ms": 60000})
        for circ in (False, True):
            hs.append({"name": "round/similarity/%s/circle=%s" % (gen, circ), "fn": "h_ellipse",
                       "params": {"mclass": "similarity", "gen": gen, "circle": circ}, "weight": 9, "claim_timeout_ms": 60000})
    for refl in (False, True):
        hs.append({"name": "arc/general/reflect=%s" % refl, "fn": "h_arc", "params": {"mclass": "general", "reflect": refl}, "weight": 9, "claim_timeout_ms": 30000})
        for circ in (False, True):
            hs.append({"name": "round/general/reflect=%s/circle=%s" % (refl, circ), "fn": "h_ellipse",
                       "params": {"mclass": "general", "reflect": refl, "circle": circ}, "weight": 9, "claim_timeout_ms": 30000})
    hs.append({"name": "twin/transposed", "fn": "h_twin", "twin": True})
    return hs
