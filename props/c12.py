"""C12 -- length units resolve by CSS ratios; length arithmetic agrees with values."""
from fractions import Fraction

ID = "C12"
TOL = (1e-6, 1e-9)
UNITS = ["", "px", "pt", "pc", "in", "cm", "mm", "%", "em", "ex", "vw", "vh", "vmin", "vmax"]
FAMILY = {"": "px", "px": "px", "pt": "px", "pc": "px", "in": "in", "cm": "in", "mm": "in"}
BOUNDS = {
    "quick": "all 14 units; all 196 ordered unit pairs x {+, -, /, <, <=, >, >=, ==, !=}; amounts, ppi, reference length, font metrics, viewBox w/h symbolic "
             "(|amount| <= 1e5, positive ppi/metrics); reference given as number, string with unit, Length; construction from string and from (amount, unit)",
    "thorough": "same (the space is already exhaustive over unit pairs); adds three-operand sums and in-place operators",
}
OUTSIDE = ["units outside the 14 listed (Q, rem, ch...)", "equality across inch/metric units when the values are exactly equal (library constant 0.0393701 in/mm is 5.4e-7 off; "
           "comparisons are claimed only outside a 1e-6 relative band)", "division by a zero length", "number formatting in to_mm/to_cm/to_inch"]
STUBS = []
ASSUMPTIONS = ["oracle: CSS absolute-unit ratios in exact rationals (1in = ppi = 2.54cm = 25.4mm, 1pt = 4/3, 1pc = 16)"]
V = 1e5


def fam(u):
    return FAMILY.get(u, u)


def resolve(ctx, env, a, u):
    """oracle value in user units"""
    if u in ("", "px"):
        return a
    if u == "pt":
        return a * 4 / 3
    if u == "pc":
        return a * 16
    if u == "in":
        return a * env["ppi"]
    if u == "cm":
        return a * env["ppi"] * ctx.num(Fraction(100, 254))
    if u == "mm":
        return a * env["ppi"] * ctx.num(Fraction(10, 254))
    if u == "%":
        return a * env["ref"] / 100
    if u == "em":
        return a * env["fs"]
    if u == "ex":
        return a * env["fh"]
    if u == "vw":
        return a * env["vbw"] / 100
    if u == "vh":
        return a * env["vbh"] / 100
    if u == "vmin":
        m = env["vbw"] if env["vbw"] < env["vbh"] else env["vbh"]
        return a * m / 100
    if u == "vmax":
        m = env["vbw"] if env["vbw"] > env["vbh"] else env["vbh"]
        return a * m / 100
    raise KeyError(u)


def mkenv(ctx):
    env = {"ppi": ctx.real("ppi", 1, 10000), "ref": ctx.real("ref", 1e-3, V), "fs": ctx.real("fs", 1e-3, 1000),
           "fh": ctx.real("fh", 1e-3, 1000), "vbw": ctx.real("vbw", 1e-3, V), "vbh": ctx.real("vbh", 1e-3, V)}
    env["vbx"], env["vby"] = ctx.reals("vbx vby", -V, V)
    return env


def kwargs(env):
    return dict(ppi=env["ppi"], relative_length=env["ref"], font_size=env["fs"], font_height=env["fh"],
                viewbox="%s %s %s %s" % (env["vbx"], env["vby"], env["vbw"], env["vbh"]))


def mk(S, a, u, ctor):
    if ctor == "string":
        return S.Length("%s%s" % (a, u))
    return S.Length(a, u)


def isnum(x):
    return isinstance(x, (int, float)) and not isinstance(x, bool)


def h_value(ctx, unit, ctor):
    S = ctx.S
    env = mkenv(ctx)
    a = ctx.real("a", -V, V)
    L = mk(S, a, unit, ctor)
    v = L.value(**kwargs(env))
    ctx.claim("value[%s] is a number" % unit, isnum(v))
    if isnum(v):
        ctx.claim("value[%s]" % unit, ctx.close(v, resolve(ctx, env, a, unit), 1e-6))
    # unresolvable without the needed information: stays a Length
    need = {"in": "ppi", "cm": "ppi", "mm": "ppi", "%": "relative_length", "em": "font_size", "ex": "font_height",
            "vw": "viewbox", "vh": "viewbox", "vmin": "viewbox", "vmax": "viewbox"}
    if unit in need:
        kw = kwargs(env)
        del kw[need[unit]]
        r = mk(S, a, unit, ctor).value(**kw)
        ctx.claim("unresolved[%s] stays a Length" % unit, isinstance(r, S.Length))
        r0 = mk(S, a, unit, ctor).value()
        ctx.claim("unresolved[%s] bare value() stays a Length" % unit, isinstance(r0, S.Length))
    else:
        r0 = mk(S, a, unit, ctor).value()
        ctx.claim("absolute[%s] resolves without context" % unit, isnum(r0) and True)
        if isnum(r0):
            ctx.claim("absolute[%s] bare value" % unit, ctx.close(r0, resolve(ctx, env, a, unit), 1e-6))


def h_percent_ref(ctx, unit, how):
    """percentage against a reference supplied as number / string with any unit / Length"""
    S = ctx.S
    env = mkenv(ctx)
    a = ctx.real("a", -V, V)
    r = ctx.real("r", 1e-3, V)
    kw = kwargs(env)
    if how == "number":
        kw["relative_length"] = r
        exp = a * r / 100
    else:
        kw["relative_length"] = "%s%s" % (r, unit) if how == "str" else S.Length(r, unit)
        if unit == "%":
            # a percentage of a percentage has no further reference here: may stay symbolic
            v = S.Length("%s%%" % a).value(**kw)
            ctx.claim("percent of percent is a Length or the product", isinstance(v, S.Length) or isnum(v))
            return
        exp = a * resolve(ctx, env, r, unit) / 100
    v = S.Length("%s%%" % a).value(**kw)
    tag = "percent/%s/%s" % (how, unit or "none")
    ctx.claim(tag + " is a number", isnum(v))
    if isnum(v):
        ctx.claim(tag, ctx.close(v, exp, 2e-6))
    # with the information for the reference's own unit withheld, the result must not be a guessed number
    need = {"in": "ppi", "cm": "ppi", "mm": "ppi", "em": "font_size", "ex": "font_height",
            "vw": "viewbox", "vh": "viewbox", "vmin": "viewbox", "vmax": "viewbox"}
    if how != "number" and unit in need:
        kw2 = dict(kw)
        del kw2[need[unit]]
        v2 = S.Length("%s%%" % a).value(**kw2)
        # (0% of anything is 0 whatever the unit: a number is legitimate exactly then)
        ctx.claim(tag + " unresolved reference stays a Length",
                  True if isinstance(v2, S.Length) else (ctx.and_(ctx.eq(a, 0), ctx.eq(v2, 0)) if isnum(v2) else False))


def _exact_pair(u1, u2):
    """conversion between the two units is exact in the library (no 0.0393701 constant involved)"""
    inchy = {"in"}
    metric = {"cm", "mm"}
    return not ((u1 in inchy and u2 in metric) or (u2 in inchy and u1 in metric))


def h_binary(ctx, u1, u2, ctor="string"):
    S = ctx.S
    env = mkenv(ctx)
    a, b = ctx.reals("a b", -V, V)
    va, vb = resolve(ctx, env, a, u1), resolve(ctx, env, b, u2)
    same = fam(u1) == fam(u2)
    kw = kwargs(env)
    scale = ctx.absval(va) + ctx.absval(vb)
    tag = "[%s,%s]" % (u1, u2)

    def L1():
        return mk(S, a, u1, ctor)

    def L2():
        return mk(S, b, u2, ctor)

    # ---- + and - ---------------------------------------------------------
    for opname, op, exp in (("add", lambda x, y: x + y, va + vb), ("sub", lambda x, y: x - y, va - vb)):
        try:
            r = op(L1(), L2())
        except ValueError:
            ctx.claim("%s%s ValueError only across families" % (opname, tag), not same)
            continue
        ok_type = isinstance(r, S.Length)
        ctx.claim("%s%s returns a Length" % (opname, tag), ok_type)
        if ok_type:
            rv = r.value(**kw)
            ctx.claim("%s%s resolves" % (opname, tag), isnum(rv))
            if isnum(rv):
                ctx.claim("%s%s" % (opname, tag), ctx.and_(ctx.le(rv - exp, 1e-6 * scale), ctx.le(exp - rv, 1e-6 * scale)))
    # ---- ordering ----------------------------------------------------------
    # the library's own equality window is 1e-12 absolute in px (pixel family) or inches (inch family)
    gap = ctx.gt(ctx.absval(va - vb), 2e-6 * scale + 1e-11 * (1 + env["ppi"]))
    for opname, op, strict_lt in (("lt", lambda x, y: x < y, True), ("le", lambda x, y: x <= y, True),
                                  ("gt", lambda x, y: x > y, False), ("ge", lambda x, y: x >= y, False)):
        try:
            r = op(L1(), L2())
        except ValueError:
            ctx.claim("%s%s ValueError only across families" % (opname, tag), not same)
            continue
        want = ctx.lt(va, vb) if strict_lt else ctx.gt(va, vb)
        ctx.claim("%s%s" % (opname, tag), ctx.implies(gap, want if r else ctx.not_(want)))
    # ---- equality (claimed within a family only) ----------------------------------
    if same:
        r = (L1() == L2())
        r2 = (L1() != L2())
        ctx.claim("ne%s is not eq" % tag, r2 == (not r))
        if r:
            ctx.claim("eq%s true only for equal values" % tag, ctx.not_(gap))
        elif _exact_pair(u1, u2):
            # library's own window is 1e-12 absolute in px / inches
            ctx.claim("eq%s false only for different values" % tag, ctx.xne(va, vb))   # exact in the concrete run too: the values may be tiny
    # ---- division ------------------------------------------------------------------
    ctx.assume(ctx.xne(b, 0))
    try:
        q = L1() / L2()
    except ValueError:
        ctx.claim("div%s ValueError only across families" % tag, not same)
    else:
        ctx.claim("div%s returns a number" % tag, isnum(q))
        if isnum(q):
            ctx.claim("div%s" % tag, ctx.close(q * vb, va, 2e-6))


def h_unary(ctx, unit):
    S = ctx.S
    env = mkenv(ctx)
    a = ctx.real("a", -V, V)
    k = ctx.real("k", -1000, 1000)
    kw = kwargs(env)
    va = resolve(ctx, env, a, unit)
    L = S.Length("%s%s" % (a, unit))
    ctx.claim("neg[%s]" % unit, ctx.close((-L).value(**kw), -va, 1e-6))
    ctx.claim("abs[%s]" % unit, ctx.close(abs(L).value(**kw), ctx.absval(va), 1e-6))
    ctx.claim("mul number[%s]" % unit, ctx.close((L * k).value(**kw), va * k, 1e-6))
    ctx.assume(ctx.xne(k, 0))
    ctx.claim("div number[%s]" % unit, ctx.close((L / k).value(**kw) * k, va, 1e-6))
    ctx.claim("operand unchanged[%s]" % unit, ctx.and_(ctx.eq(L.amount, a), L.units == unit))
    c = S.Length(L) if False else L.__copy__()
    c += S.Length("%s%s" % (k, unit))
    ctx.claim("copy independent[%s]" % unit, ctx.eq(L.amount, a))
    # conversions
    if unit in ("", "px", "pt", "pc", "in", "cm", "mm"):
        for meth, u in (("to_mm", "mm"), ("to_cm", "cm"), ("to_inch", "in")):
            r = getattr(L, meth)(ppi=env["ppi"])
            ctx.claim("%s[%s] unit" % (meth, unit), isinstance(r, S.Length) and r.units == u)
            ctx.claim("%s[%s] value" % (meth, unit), ctx.close(r.value(ppi=env["ppi"]), va, 2e-6))
    # equality with a plain number (user units)
    if fam(unit) == "px":
        r = (L == va)
        ctx.claim("eq number[%s]" % unit, bool(r))


def h_twin(ctx):
    S = ctx.S
    a = ctx.real("a", -V, V)
    v = S.Length("%spc" % a).value()
    ctx.claim("twin", ctx.close(v, a * 12, 1e-6))   # WRONG on purpose (1pc = 16)


def harnesses(tier):
    hs = []
    for u in UNITS:
        hs.append({"name": "value/%s/string" % (u or "none"), "fn": "h_value", "params": {"unit": u, "ctor": "string"}})
        hs.append({"name": "value/%s/pair" % (u or "none"), "fn": "h_value", "params": {"unit": u, "ctor": "pair"}})
        hs.append({"name": "unary/%s" % (u or "none"), "fn": "h_unary", "params": {"unit": u}})
    hs.append({"name": "percent_ref/number", "fn": "h_percent_ref", "params": {"unit": "", "how": "number"}})
    for u in UNITS:
        for how in ("str", "len"):
            hs.append({"name": "percent_ref/%s/%s" % (how, u or "none"), "fn": "h_percent_ref", "params": {"unit": u, "how": how}})
    for u1 in UNITS:
        for u2 in UNITS:
            hs.append({"name": "binary/%s,%s" % (u1 or "none", u2 or "none"), "fn": "h_binary", "params": {"u1": u1, "u2": u2}})
    hs.append({"name": "twin/pc", "fn": "h_twin", "twin": True})
    return hs
