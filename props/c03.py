"""C03 -- parsed documents give each shape its spec-defined absolute geometry."""
import io
from . import docgen as D

ID = "C03"
TOL = (1e-6, 1e-6)
BOUNDS = {
    "quick": "about 90 document skeletons over svg/g/defs/use/nested svg/rect/line/polyline/polygon/path/circle with nesting depth <= 3, transform lists "
             "(translate, scale, reflection, matrix, rotate, skewX) on any element, unit-bearing and percentage attributes, display:none, unreferenced definitions, "
             "use of shape / of group / nested use; rounded rectangles (end points of the SVG 2 decomposition) under non-uniform scale; percentage content after leaving two nested viewports; every number symbolic; configurations reify in {True, False}, ppi symbolic, caller width/height/transform",
    "thorough": "the quick family crossed with every shape kind at every leaf and both reify settings for every skeleton",
}
OUTSIDE = ["nesting deeper than the bound", "round shapes under non-similarity transforms (C02/C06)", "text and images", "stylesheet effects (C14)"]
STUBS = []
ASSUMPTIONS = ["oracle: fold of reference matrices over the ancestor chain in document order (caller transform, svg transform attribute then its SVG 2 8.2 viewport transform, "
               "g/use transforms, use x/y as trailing translate) applied to the SVG 2 chapter 10 decomposition of each shape; percentages against the nearest viewport"]


def h_doc(ctx, spec, reify=True, caller=None):
    S = ctx.S
    ppi = ctx.real("ppi", 10, 1000)
    kw = {"reify": reify, "ppi": ppi}
    cw = ch = None
    ctr = None
    if caller:
        if "size" in caller:
            cw, ch = ctx.real("cw", 1, 2000), ctx.real("ch", 1, 2000)
            if caller["size"] == "number":
                kw["width"], kw["height"] = cw, ch
            else:
                kw["width"], kw["height"] = "%spx" % cw, "%spt" % ch
                ch = ch * 4 / 3
        ctr = caller.get("tr")
    doc = D.Doc(ctx, spec, ppi, cw, ch, ctr)
    if doc.caller_text:
        kw["transform"] = doc.caller_text
    svg = S.SVG.parse(io.StringIO(doc.text), **kw)
    shapes = D.lib_shapes(S, svg)
    exp = doc.expected
    ok = len(shapes) == len(exp)
    ctx.claim("rendered shape count", ok, lambda: "%d != %d in %s" % (len(shapes), len(exp), doc.text))
    if not ok:
        return
    kinds = [type(s).__name__ for s in shapes]
    ok = kinds == [e["kind"] for e in exp]
    ctx.claim("shape kinds in document order", ok, lambda: "%s vs %s" % (kinds, [e["kind"] for e in exp]))
    if not ok:
        return
    for i, (s, e) in enumerate(zip(shapes, exp)):
        p, pts = D.shape_points(S, s)
        if e["round"]:
            # four quarter arcs + close: arc end points are the quadrant points, centre is the image of the centre
            arcs = [seg for seg in p if isinstance(seg, S.Arc)]
            ok = len(arcs) == 4
            ctx.claim("shape%d circle has four arcs" % i, ok)
            if ok:
                conds = []
                det = D.det(e["ctm"])
                order = [1, 2, 3, 0]
                if ctx.mode == "sym":
                    pass
                for k, a in enumerate(arcs):
                    conds.append(ctx.and_(ctx.eq(a.center.x, e["center"][0]), ctx.eq(a.center.y, e["center"][1])))
                ctx.claim("shape%d circle centre" % i, ctx.and_(*conds))
                ctx.claim("shape%d circle starts at the image of (cx+r, cy)" % i, ctx.and_(ctx.eq(arcs[0].start.x, e["pts"][0][0]), ctx.eq(arcs[0].start.y, e["pts"][0][1])))
            continue
        ok = len(pts) == len(e["pts"])
        ctx.claim("shape%d point count" % i, ok, lambda: "%d vs %d" % (len(pts), len(e["pts"])))
        if not ok:
            continue
        ctx.claim("shape%d %s absolute points" % (i, e["kind"]),
                  ctx.and_(*[ctx.and_(ctx.eq(a[0], b[0]), ctx.eq(a[1], b[1])) for a, b in zip(pts, e["pts"])]))
        closed = any(isinstance(seg, S.Close) for seg in p)
        ctx.claim("shape%d closedness" % i, closed == e["closed"])


def h_twin(ctx):
    """wrong oracle: g transform applied after (outside) the svg viewport transform order swapped"""
    S = ctx.S
    spec = {"t": "svg", "size": "attr", "ch": [{"t": "g", "tr": [["translate", 2], ["scale", 1]], "ch": [{"t": "rect"}]}]}
    ppi = ctx.real("ppi", 10, 1000)
    doc = D.Doc(ctx, spec, ppi)
    svg = S.SVG.parse(io.StringIO(doc.text), ppi=ppi)
    s = D.lib_shapes(S, svg)[0]
    p, pts = D.shape_points(S, s)
    e = doc.expected[0]
    # WRONG on purpose: expects the untransformed corner
    sp = e["spec"]
    ctx.claim("twin", ctx.eq(pts[1][0], pts[0][0]))


# ---------------------------------------------------------------- skeletons ----
def R(**k):
    d = {"t": "rect"}
    d.update(k)
    return d


def G(ch, **k):
    d = {"t": "g", "ch": ch}
    d.update(k)
    return d


def SV(ch, **k):
    d = {"t": "svg", "ch": ch}
    d.update(k)
    return d


T1 = [["translate", 2]]
T2 = [["translate", 2], ["scale", 2]]
T3 = [["scale", 1], ["translate", 1]]
TM = [["matrix", 6]]
TR = [["rotate", 1], ["translate", 2]]
TN = [["nscale", 1], ["translate", 2]]
TK = [["skewX", 1], ["translate", 2]]


def skeletons(tier):
    sk = []

    def add(name, spec, **kw):
        sk.append((name, spec, kw))
    leafs = [R(), {"t": "line"}, {"t": "polyline"}, {"t": "polygon"}, {"t": "path"}]
    # plain root, every shape kind, with/without own transform
    for i, leaf in enumerate(leafs):
        add("root/%s" % leaf["t"], SV([leaf], size="attr"))
        add("root/%s+tr" % leaf["t"], SV([dict(leaf, tr=[T2, TM, TR, TN, TK][i])], size="attr"))
    add("root/circle", SV([{"t": "circle"}, {"t": "circle", "tr": T1}], size="attr"))
    # root viewBox variants
    for par in (None, "none", "xMinYMax slice", "xMaxYMid meet"):
        add("vb/%s" % par, SV([R(), G([{"t": "line"}], tr=T2)], size="attr", vb=True, par=par))
    add("vb/none_rounded", SV([{"t": "rect_round"}], size="attr", vb=True, par="none"))
    add("g/scale_rounded", SV([G([{"t": "rect_round"}, {"t": "rect_round", "tr": T1}], tr=T2)], size="attr"))
    add("vb/default_size", SV([R(), {"t": "polygon"}], size="none", vb=True))
    add("novb/default_size", SV([R(units={"x": "%", "width": "%"})], size="none"))
    add("vb/xy", SV([R()], size="attr", vb=True, xy=True))
    add("root/transform_attr", SV([R(), G([{"t": "path"}], tr=T1)], size="attr", vb=True, tr=T2))
    # groups
    add("g/nested", SV([G([G([R()], tr=T3), {"t": "line"}], tr=T2), R()], size="attr"))
    add("g/matrix_rotate", SV([G([G([{"t": "polyline"}], tr=TR)], tr=TM)], size="attr"))
    add("g/three_deep", SV([G([G([G([R(tr=T1)], tr=T3)], tr=TN)], tr=T2)], size="attr", vb=True))
    add("g/skew", SV([G([R(), {"t": "polygon"}], tr=TK)], size="attr"))
    add("g/order", SV([R(), G([{"t": "line"}, G([{"t": "polygon"}]), {"t": "path"}]), {"t": "polyline"}], size="attr"))
    # units and percentages
    for u in ("px", "pt", "pc", "in", "%"):
        add("units/rect_%s" % u, SV([R(units={"x": u, "y": u, "width": u, "height": u})], size="attr", vb=(u == "%")))
        add("units/line_%s" % u, SV([G([{"t": "line", "units": {"x1": u, "y2": u}}], tr=T2)], size="attr"))
    add("units/root_size_in", SV([R()], size="attr", sizeunit="in", vb=True))
    add("units/root_size_pt", SV([R(units={"x": "%"})], size="attr", sizeunit="pt"))
    # nested svg
    add("nested/plain", SV([SV([R()], size="attr", xy=True), {"t": "line"}], size="attr"))
    add("nested/vb", SV([SV([R(), {"t": "polygon"}], size="attr", xy=True, vb=True, par="xMidYMid slice")], size="attr", vb=True))
    add("nested/vb_then_sibling", SV([SV([R()], size="attr", xy=True, vb=True), R(units={"x": "%", "width": "%"}), R()], size="attr"))
    # leaving nested viewports one by one: percentages refer to the viewport that is current again
    add("nested/two_deep_then_pct", SV([SV([SV([R()], size="attr", xy=True, vb=True), R(units={"x": "%", "width": "%"})], size="attr", xy=True, vb=True),
                                        R(units={"x": "%", "y": "%", "width": "%", "height": "%"})], size="attr"))
    add("nested/in_g", SV([G([SV([{"t": "path"}], size="attr", xy=True, vb=True, par="none")], tr=T2), R()], size="attr"))
    add("nested/rect_without_xy", SV([SV([{"t": "rect_noxy"}], size="attr", xy=True)], size="attr"))
    add("nested/pct_child", SV([SV([R(units={"x": "%", "y": "%", "width": "%", "height": "%"})], size="attr", xy=True, vb=True)], size="attr"))
    add("nested/transform_attr", SV([SV([R()], size="attr", xy=True, vb=True, tr=T1)], size="attr"))
    # defs / use / display none
    add("defs/unreferenced", SV([{"t": "defs", "ch": [R(id="a")]}, {"t": "line"}], size="attr"))
    add("use/shape", SV([{"t": "defs", "ch": [R(id="a")]}, {"t": "use", "ref": "a", "xy": True}, {"t": "line"}], size="attr"))
    add("use/shape_tr", SV([{"t": "defs", "ch": [{"t": "polygon", "id": "a", "tr": T1}]}, G([{"t": "use", "ref": "a", "xy": True, "tr": T2}], tr=T3)], size="attr", vb=True))
    add("use/xlink", SV([{"t": "defs", "ch": [{"t": "path", "id": "a"}]}, {"t": "use", "ref": "a", "xlink": True}], size="attr"))
    add("use/twice", SV([{"t": "defs", "ch": [R(id="a")]}, {"t": "use", "ref": "a", "xy": True}, {"t": "use", "ref": "a", "tr": T2}], size="attr"))
    add("use/rendered_original", SV([R(id="a"), {"t": "use", "ref": "a", "xy": True}], size="attr"))
    add("use/group", SV([{"t": "defs", "ch": [G([R(id="b"), {"t": "line", "id": "c"}], id="a", tr=T1)]}, {"t": "use", "ref": "a", "xy": True, "tr": T3}], size="attr"))
    add("use/nested_use", SV([{"t": "defs", "ch": [R(id="a"), {"t": "use", "ref": "a", "id": "u1", "xy": True}]}, {"t": "use", "ref": "u1", "tr": T2}], size="attr"))
    add("use/in_nested_svg", SV([{"t": "defs", "ch": [R(id="a")]}, SV([{"t": "use", "ref": "a", "xy": True}], size="attr", xy=True, vb=True)], size="attr"))
    add("use/then_sibling", SV([{"t": "defs", "ch": [R(id="a", tr=T1)]}, G([{"t": "use", "ref": "a", "xy": True}, R()], tr=T2), {"t": "line"}], size="attr"))
    add("use/dangling", SV([{"t": "use", "ref": "nope", "xy": True}, R()], size="attr"))
    add("none/attr", SV([G([R(), G([{"t": "line"}])], display_none="attr"), {"t": "polygon"}], size="attr"))
    add("none/style", SV([G([R()], display_none="style", tr=T1), R()], size="attr"))
    # caller configuration
    add("caller/size_number", SV([R(units={"x": "%", "width": "%", "y": "%"})], size="none"), caller={"size": "number"})
    add("caller/size_length", SV([R(units={"x": "%", "height": "%"})], size="none", vb=True), caller={"size": "length"})
    add("caller/transform", SV([G([R()], tr=T1), {"t": "line"}], size="attr", vb=True), caller={"tr": T2})
    add("caller/transform_matrix", SV([R(tr=T3)], size="attr"), caller={"tr": TM})
    return sk


def harnesses(tier):
    hs = []
    for name, spec, kw in skeletons(tier):
        for reify in (True, False):
            params = {"spec": spec, "reify": reify}
            if "caller" in kw:
                params["caller"] = kw["caller"]
            hs.append({"name": "%s/reify=%s" % (name, reify), "fn": "h_doc", "params": params})
    hs.append({"name": "twin/untransformed", "fn": "h_twin", "twin": True})
    return hs
