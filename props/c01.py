"""C01 -- path data is interpreted exactly as the SVG path grammar prescribes."""
import itertools
from . import pathgen as G

ID = "C01"
TOL = (1e-6, 1e-9)
BOUNDS = {
    "quick": "sem: leading M or m (1 or 2 pairs) followed by every sequence of <=2 commands over the 20 letters, each with 1-2 argument groups, every number symbolic; "
             "all 14 smooth chains of length 3-4; segment-completing z on every drawing command; lex: every number spelling class pair adjacent in a fixed context "
             "with symbolic digits/signs/separators",
    "thorough": "sem: every sequence of <=3 commands after the leading move; lex: triples of adjacent tokens",
}
OUTSIDE = ["command sequences longer than the bound", "arc geometry (C05): Arc._svg_parameterize is replaced by a recorder, its arguments are compared",
           "decoding of numerals by CPython float() beyond 4 digits per part", "IEEE rounding of relative offsets"]
STUBS = ["Arc._svg_parameterize -> recorder of (start, rx, ry, rotation, flags, end) [sem harness only]"]
ASSUMPTIONS = ["oracle: 60-line interpreter of SVG 1.1 8.3 / SVG 2 9.3 path semantics written from the specification"]


def h_sem(ctx, cmds, sep=" ", csep=" "):
    S = ctx.S
    pieces, abstract = G.build(ctx, [tuple(c) for c in cmds], sep=sep)
    text = csep.join(pieces)
    osegs = G.Interp().run(abstract)
    with G.ArcStub(S):
        p = S.Path(text)
        segs = list(p)
    G.compare(ctx, segs, osegs, "sem")


def h_sem_twin(ctx):
    """deliberately wrong oracle: S after C does NOT reflect (uses the current point)"""
    S = ctx.S
    cmds = [("M", 1, False), ("C", 1, False), ("S", 1, False)]
    pieces, abstract = G.build(ctx, cmds)
    p = S.Path(" ".join(pieces))
    segs = list(p)
    e = abstract[1][1][0][2]
    ctx.claim("twin", G.pt_eq(ctx, segs[2].control1, e))


def _grp(letter, i):
    """1 or 2 groups; repetition on alternating positions"""
    if letter in "Zz":
        return 0
    return 2 if i % 2 == 0 else 1


def _name(cmds):
    return "".join("%s%d%s" % (c[0], c[1], "z" if c[2] else "") for c in cmds)


def harnesses(tier):
    hs = []
    depth = 3 if tier == "thorough" else 2
    seen = set()

    def add(cmds, **kw):
        nm = "sem/" + _name(cmds) + ("/" + kw.get("tagx", "") if kw.get("tagx") else "")
        if nm in seen:
            return
        seen.add(nm)
        params = {"cmds": [list(c) for c in cmds]}
        for k in ("sep", "csep"):
            if k in kw:
                params[k] = kw[k]
        hs.append({"name": nm, "fn": "h_sem", "params": params})

    for lead in "Mm":
        for leadgroups in (1, 2):
            for n in range(0, depth + 1):
                if leadgroups == 2 and n > 1:
                    continue
                for seq in itertools.product(G.LETTERS, repeat=n):
                    cmds = [(lead, leadgroups, False)] + [(l, _grp(l, i), False) for i, l in enumerate(seq)]
                    add(cmds)
    # smooth chains
    chains = ["QTTT", "CSSS", "QS", "CT", "LT", "ZT", "MT", "QTQT", "CSCS", "qtst", "csts", "AT", "AS", "HS", "VT", "tTsS", "QZT", "CZS", "QMT", "CMS", "Qt", "Cs", "qT", "cS"]
    for ch in chains:
        add([("M", 1, False)] + [(l, 1, False) for l in ch])
        add([("m", 1, False)] + [(l, 2 if i == 0 else 1, False) for i, l in enumerate(ch)])
    # SVG 2 segment-completing close
    for l in "LlCcSsQqTtAa":
        add([("M", 1, False), (l, 1, True)])
        if l not in "LlTt":   # "L x,y z" is a lineto followed by an ordinary closepath (covered by the plain sequences)
            add([("M", 1, False), ("L", 1, False), (l, 2, True), ("l", 1, False)])
        add([("M", 1, False), ("L", 1, False), (l, 1, True), ("Z", 0, False), ("t", 1, False)])
        add([("m", 2, False), (l, 1, False), ("M", 1, False), (l, 1, True), (l.swapcase(), 1, False)])
    # separators between numbers / commands
    for sep, csep, tagx in ((",", "", "tight"), (" , ", "\n", "loose"), ("\t", " ", "tab")):
        for seq in ("LHVZ", "CSQT", "Aaz", "lhvz", "csqt", "mLm"):
            add([("M", 2, False)] + [(l, _grp(l, i + 1), False) for i, l in enumerate(seq)], sep=sep, csep=csep, tagx=tagx)
    hs.append({"name": "twin/S_after_C", "fn": "h_sem_twin", "twin": True})
    return hs


# ------------------------------------------------------------------ lexical ----
WSP = " \t\n\x0c\r"
CW = WSP + ","
DIG = "0123456789"


def _num_value(ctx, shape, ords):
    """oracle value of a numeral of the given shape from its character codes"""
    i = 0
    sign = None
    if shape[i] == "S":
        sign = ords[i]
        i += 1
    mant = 0
    fracdigits = 0
    seen_dot = False
    while i < len(shape) and shape[i] in "D.":
        if shape[i] == ".":
            seen_dot = True
        else:
            mant = mant * 10 + (ords[i] - 48)
            if seen_dot:
                fracdigits += 1
        i += 1
    val = mant
    e10 = 0
    esign = None
    if i < len(shape) and shape[i] == "E":
        i += 1
        if i < len(shape) and shape[i] == "s":
            esign = ords[i]
            i += 1
        while i < len(shape):
            e10 = e10 * 10 + int(shape[i])
            i += 1
    from fractions import Fraction
    down = ctx.num(Fraction(1, 10 ** (fracdigits + e10)))
    up = ctx.num(Fraction(10 ** e10, 10 ** fracdigits))
    if esign is None:
        val = val * up
    else:
        val = ctx.ite(ctx.eq(esign, 45), val * down, val * up)
    if sign is not None:
        val = ctx.ite(ctx.eq(sign, 45), 0 - val, val)
    return val


def _shape_alphabets(shape):
    out = []
    for ch in shape:
        out.append({"D": DIG, "S": "+-", ".": ".", "E": "eE", "s": "+-"}.get(ch, ch))
    return out


def h_lex(ctx, template):
    """template items: ['lit', text] | ['w', n] (wsp run) | ['W', n] (comma-wsp run: one comma allowed, first position)
    | ['num', shape] | ['flag'] ; literal command letters delimit commands"""
    S = ctx.S
    alph = []
    layout = []   # (kind, start, length, extra)
    for it in template:
        k = it[0]
        if k == "lit":
            for ch in it[1]:
                alph.append(ch)
            layout.append(("lit", len(alph) - len(it[1]), len(it[1]), it[1]))
        elif k == "w":
            layout.append(("ws", len(alph), it[1], None))
            alph += [WSP] * it[1]
        elif k == "W":
            layout.append(("ws", len(alph), it[1], None))
            alph += [CW] + [WSP] * (it[1] - 1)
        elif k == "num":
            layout.append(("num", len(alph), len(it[1]), it[1]))
            alph += _shape_alphabets(it[1])
        elif k == "flag":
            layout.append(("flag", len(alph), 1, None))
            alph.append("01")
    text = ctx.chars("s", alph)
    ords = ctx.ordinals(text)
    # abstract commands
    abstract = []
    vals = []
    letter = None

    def flush():
        if letter is None:
            return
        kinds = G.ARGS[letter.upper()]
        groups = []
        v = list(vals)
        n = sum(2 if k == "p" else 1 for k in kinds)
        while v:
            g = []
            chunk, v = v[:n], v[n:]
            j = 0
            for k in kinds:
                if k == "p":
                    g.append((chunk[j], chunk[j + 1]))
                    j += 2
                else:
                    g.append(chunk[j])
                    j += 1
            groups.append(g)
        abstract.append((letter, groups))

    flagvals = []
    for kind, start, length, extra in layout:
        if kind == "lit":
            for ch in extra:
                if ch in G.LETTERS:
                    flush()
                    letter = ch
                    vals = []
        elif kind == "num":
            vals.append(_num_value(ctx, extra, ords[start:start + length]))
        elif kind == "flag":
            vals.append(ords[start] - 48)
    flush()
    osegs = G.Interp().run(abstract)
    with G.ArcStub(S) as stub:
        p = S.Path(text)
        segs = list(p)
    # flags are symbolic here: compare them as numbers
    for s_, o in zip(segs, osegs):
        if o["kind"] == "Arc" and hasattr(s_, "_symx_args"):
            rx, ry, rot, fa, fs = s_._symx_args
            orx, ory, orot, ofa, ofs = o["arc"]
            ctx.claim("lex arc flags", ctx.and_(ctx.eq(1 if fa else 0, ofa), ctx.eq(1 if fs else 0, ofs)))
            o["arc"] = (orx, ory, orot, fa, fs)
    G.compare(ctx, segs, osegs, "lex")


def h_lex_twin(ctx):
    """wrong oracle: '1-2' read as a single number pair missing -> expects ValueError-free 1 segment"""
    S = ctx.S
    text = ctx.chars("s", ["M", DIG, "+-", DIG])
    ords = ctx.ordinals(text)
    p = S.Path(text)
    ctx.claim("twin", ctx.eq(p[0].end.y, ords[3] - 48))   # WRONG: ignores the sign


NUMS = ["D", "DD", "D.D", ".D", "SD", "S.D", "SD.D", "DE2", "D.DEs1", "SDEs2"]


def lex_templates(tier):
    T = []
    # separators of every kind between the numbers of a pair and between commands
    for n1 in NUMS:
        for n2 in (NUMS if tier == "thorough" else ["D", "SD", ".D", "D.D"]):
            T.append(("pair/%s_%s" % (n1, n2), [["lit", "M"], ["num", n1], ["W", 1], ["num", n2], ["lit", "L"], ["w", 1], ["num", n2], ["W", 2], ["num", n1]]))
    # separator-free adjacency: sign starts a new number, second dot starts a new number
    for n1 in ["D", "D.D", ".D", "DE2"]:
        for n2 in ["SD", "S.D"]:
            T.append(("adj_sign/%s_%s" % (n1, n2), [["lit", "M"], ["num", n1], ["num", n2], ["lit", "l"], ["num", n2], ["num", n2]]))
    for n1 in ["D.D", ".D", "SD.D"]:
        T.append(("adj_dot/%s" % n1, [["lit", "M"], ["num", n1], ["num", ".D"], ["lit", "L"], ["num", n1], ["num", ".D"], ["num", ".D"], ["num", ".D"]]))
    # whitespace around commands, implicit repetition, H/V
    T.append(("ws_cmd", [["w", 1], ["lit", "M"], ["w", 2], ["num", "D"], ["W", 1], ["num", "D"], ["w", 1], ["lit", "h"], ["num", "SD"], ["W", 1], ["num", "D"], ["w", 1],
                         ["lit", "V"], ["w", 1], ["num", "D"], ["lit", "z"], ["w", 1]]))
    T.append(("repeat", [["lit", "M"], ["num", "D"], ["W", 1], ["num", "D"], ["W", 1], ["num", "D"], ["W", 1], ["num", "D"], ["lit", "q"], ["num", "D"], ["num", "SD"],
                         ["W", 1], ["num", "D"], ["num", "SD"], ["lit", "t"], ["num", "D"], ["num", "SD"], ["num", "SD"], ["num", "SD"]]))
    # arcs with packed / separated flags
    for style, sepf in (("packed", []), ("comma", [["W", 1]]), ("space2", [["w", 2]])):
        T.append(("arcflags/%s" % style, [["lit", "M"], ["num", "D"], ["W", 1], ["num", "D"], ["lit", "A"], ["num", "D"], ["W", 1], ["num", "D"], ["W", 1], ["num", "SD"], ["W", 1],
                                          ["flag"]] + sepf + [["flag"]] + sepf + [["num", "D"], ["W", 1], ["num", "D"]]))
    T.append(("arcflags/packed_all", [["lit", "M"], ["num", "D"], ["W", 1], ["num", "D"], ["lit", "a"], ["num", "D"], ["W", 1], ["num", "D"], ["W", 1], ["num", "D"], ["W", 1],
                                      ["flag"], ["flag"], ["num", ".D"], ["num", ".D"], ["W", 1], ["num", "D"], ["W", 1], ["num", "D"], ["W", 1], ["num", "D"], ["W", 1],
                                      ["flag"], ["W", 1], ["flag"], ["num", "SD"], ["num", "SD"]]))
    return T


_sem_harnesses = harnesses


def harnesses(tier):
    hs = _sem_harnesses(tier)
    for name, t in lex_templates(tier):
        hs.append({"name": "lex/" + name, "fn": "h_lex", "params": {"template": t}, "weight": 5})
    hs.append({"name": "twin/lex_sign", "fn": "h_lex_twin", "twin": True})
    return hs
