"""C01 -- path data is interpreted exactly as the SVG path grammar prescribes."""
import itertools
from . import pathgen as G

ID = "C01"
TOL = (1e-6, 1e-9)
BOUNDS = {
    "quick": "sem: leading M or m (1 or 2 pairs) followed by every sequence of <=2 commands over the 20 letters, each with 1-2 argument groups, every number symbolic; "
             "all 14 smooth chains of length 3-4; segment-completing z on every drawing command; lex: every number spelling class pair adjacent in a fixed context "
             "with symbolic digits/signs/separators",
    "thorough": "sem: every sequence of <=3 commands after the leading move; lex: triples of adjacent tokens",
}
OUTSIDE = ["command sequences longer than the bound", "arc geometry (C05): Arc._svg_parameterize is replaced by a recorder, its arguments are compared",
           "decoding of numerals by CPython float() beyond 4 digits per part", "IEEE rounding of relative offsets"]
STUBS = ["Arc._svg_parameterize -> recorder of (start, rx, ry, rotation, flags, end) [sem harness only]"]
ASSUMPTIONS = ["oracle: 60-line interpreter of SVG 1.1 8.3 / SVG 2 9.3 path semantics written from the specification"]


def h_sem(ctx, cmds, sep=" ", csep=" "):
    S = ctx.S
    pieces, abstract = G.build(ctx, [tuple(c) for c in cmds], sep=sep)
    text = csep.join(pieces)
    osegs = G.Interp().run(abstract)
    with G.ArcStub(S):
        p = S.Path(text)
        segs = list(p)
    G.compare(ctx, segs, osegs, "sem")


def h_sem_twin(ctx):
    """deliberately wrong oracle: S after C does NOT reflect (uses the current point)"""
    S = ctx.S
    cmds = [("M", 1, False), ("C", 1, False), ("S", 1, False)]
    pieces, abstract = G.build(ctx, cmds)
    p = S.Path(" ".join(pieces))
    segs = list(p)
    e = abstract[1][1][0][2]
    ctx.claim("twin", G.pt_eq(ctx, segs[2].control1, e))


def _grp(letter, i):
    """1 or 2 groups; repetition on alternating positions"""
    if letter in "Zz":
        return 0
    return 2 if i % 2 == 0 else 1


def _name(cmds):
    return "".join("%s%d%s" % (c[0], c[1], "z" if c[2] else "") for c in cmds)


def harnesses(tier):
    hs = []
    depth = 3 if tier == "thorough" else 2
    seen = set()

    def add(cmds, **kw):
        nm = "sem/" + _name(cmds) + ("/" + kw.get("tagx", "") if kw.get("tagx") else "")
        if nm in seen:
            return
        seen.add(nm)
        params = {"cmds": [list(c) for c in cmds]}
        for k in ("sep", "csep"):
            if k in kw:
                params[k] = kw[k]
        hs.append({"name": nm, "fn": "h_sem", "params": params})

    for lead in "Mm":
        for leadgroups in (1, 2):
            for n in range(0, depth + 1):
                if leadgroups == 2 and n > 1:
                    continue
                for seq in itertools.product(G.LETTERS, repeat=n):
                    cmds = [(lead, leadgroups, False)] + [(l, _grp(l, i), False) for i, l in enumerate(seq)]
                    add(cmds)
    # smooth chains
    chains = ["QTTT", "CSSS", "QS", "CT", "LT", "ZT", "MT", "QTQT", "CSCS", "qtst", "csts", "AT", "AS", "HS", "VT", "tTsS", "QZT", "CZS", "QMT", "CMS", "Qt", "Cs", "qT", "cS"]
    for ch in chains:
        add([("M", 1, False)] + [(l, 1, False) for l in ch])
        add([("m", 1, False)] + [(l, 2 if i == 0 else 1, False) for i, l in enumerate(ch)])
    # SVG 2 segment-completing close
    for l in "LlCcSsQqTtAa":
        add([("M", 1, False), (l, 1, True)])
        if l not in "LlTt":   # "L x,y z" is a lineto followed by an ordinary closepath (covered by the plain sequences)
            add([("M", 1, False), ("L", 1, False), (l, 2, True), ("l", 1, False)])
        add([("M", 1, False), ("L", 1, False), (l, 1, True), ("Z", 0, False), ("t", 1, False)])
        add([("m", 2, False), (l, 1, False), ("M", 1, False), (l, 1, True), (l.swapcase(), 1, False)])
    # separators between numbers / commands
    for sep, csep, tagx in ((",", "", "tight"), (" , ", "\n", "loose"), ("\t", " ", "tab")):
        for seq in ("LHVZ", "CSQT", "Aaz", "lhvz", "csqt", "mLm"):
            add([("M", 2, False)] + [(l, _grp(l, i + 1), False) for i, l in enumerate(seq)], sep=sep, csep=csep, tagx=tagx)
    hs.append({"name": "twin/S_after_C", "fn": "h_sem_twin", "twin": True})
    return hs
