"""C04 -- transform strings and Matrix algebra follow SVG/CSS transform semantics."""
import itertools
from fractions import Fraction

ID = "C04"
TOL = (1e-6, 1e-9)
BOUNDS = {
    "quick": "algebra: all 6-tuples (symbolic), all points; strings: every list of <=2 transform functions over 11 names x legal arities "
             "x angle unit {none,deg,grad,rad,turn} (first function) x length unit {none,px,pt,pc,in} on translate; translate/translateX/translateY with units in, pt, pc before and after matrix, rotate, translate, scale, skewX "
             "and next to each other; separator styles and letter case on single functions; upper-case spellings of angle and length units as well as of function names",
    "thorough": "as quick with lists of <=3 functions and units on every function",
}
OUTSIDE = ["transform lists longer than the bound", "numeric spellings (shared float pattern, see C01-lex)", "tan at its poles (skew by 90deg)",
           "mm/cm translate units are compared with a 1e-6 relative band (library constant 0.0393701 in/mm)"]
STUBS = []
ASSUMPTIONS = ["oracle: right-most function applied to the point first; rotate(a,cx,cy)=translate(c) rotate(a) translate(-c); skew(a)=skew(a,0) (CSS)"]

VAR = 1e5


# ---------------------------------------------------------------- oracle ------
def o_apply(m, p):
    a, b, c, d, e, f = m
    return (a * p[0] + c * p[1] + e, b * p[0] + d * p[1] + f)


def o_fn(ctx, name, args, unit_factor=None):
    """returns a function point->point for one transform function (args already in user units / radians)"""
    if name == "matrix":
        return lambda p: o_apply(args, p)
    if name == "translate":
        tx = args[0]
        ty = args[1] if len(args) > 1 else 0
        return lambda p: (p[0] + tx, p[1] + ty)
    if name == "translatex":
        return lambda p: (p[0] + args[0], p[1])
    if name == "translatey":
        return lambda p: (p[0], p[1] + args[0])
    if name == "scale":
        sx = args[0]
        sy = args[1] if len(args) > 1 else sx
        return lambda p: (p[0] * sx, p[1] * sy)
    if name == "scalex":
        return lambda p: (p[0] * args[0], p[1])
    if name == "scaley":
        return lambda p: (p[0], p[1] * args[0])
    if name == "rotate":
        co, si = ctx.cos(args[0]), ctx.sin(args[0])
        cx, cy = (args[1], args[2]) if len(args) == 3 else (0, 0)
        return lambda p: (cx + co * (p[0] - cx) - si * (p[1] - cy), cy + si * (p[0] - cx) + co * (p[1] - cy))
    if name == "skew":
        ta = ctx.tan(args[0])
        tb = ctx.tan(args[1]) if len(args) > 1 else 0
        return lambda p: (p[0] + ta * p[1], p[1] + tb * p[0])
    if name == "skewx":
        ta = ctx.tan(args[0])
        return lambda p: (p[0] + ta * p[1], p[1])
    if name == "skewy":
        tb = ctx.tan(args[0])
        return lambda p: (p[0], p[1] + tb * p[0])
    raise KeyError(name)


TAU = 6.283185307179586
ANGLE_UNITS = {"": Fraction(TAU) / 360, "deg": Fraction(TAU) / 360, "grad": Fraction(TAU) / 400, "rad": Fraction(1), "turn": Fraction(TAU)}
LEN_UNITS = {"": Fraction(1), "px": Fraction(1), "pt": Fraction(4, 3), "pc": Fraction(16), "in": None}  # in -> ppi

# name -> list of arities; kinds: 'n' number, 'a' angle, 'l' length
SIG = {
    "matrix": [("n",) * 6],
    "translate": [("l",), ("l", "l")],
    "translatex": [("l",)],
    "translatey": [("l",)],
    "scale": [("n",), ("n", "n")],
    "scalex": [("n",)],
    "scaley": [("n",)],
    "rotate": [("a",), ("a", "l", "l")],
    "skew": [("a",), ("a", "a")],
    "skewx": [("a",)],
    "skewy": [("a",)],
}
SPELL = {"matrix": "matrix", "translate": "translate", "translatex": "translateX", "translatey": "translateY", "scale": "scale",
         "scalex": "scaleX", "scaley": "scaleY", "rotate": "rotate", "skew": "skew", "skewx": "skewX", "skewy": "skewY"}


def h_string(ctx, funcs, sep=", ", case="spec", fsep=" "):
    """funcs: list of [name, kinds(list), aunit, lunit]"""
    S = ctx.S
    ppi = ctx.real("ppi", 1, 10000)
    pieces = []
    ofs = []
    k = 0
    for name, kinds, aunit, lunit in funcs:
        vals = []
        texts = []
        for kind in kinds:
            v = ctx.real("v%d" % k, -VAR, VAR)
            k += 1
            if kind == "a":
                texts.append("%s%s" % (v, aunit.upper() if case == "upper" else aunit))
                vals.append(v * ctx.num(ANGLE_UNITS[aunit]))
            elif kind == "l":
                texts.append("%s%s" % (v, lunit.upper() if case == "upper" else lunit))
                fac = LEN_UNITS[lunit]
                vals.append(v * ppi if fac is None else v * ctx.num(fac))
            else:
                texts.append("%s" % v)
                vals.append(v)
        nm = {"spec": SPELL[name], "lower": name, "upper": name.upper()}[case]
        pieces.append("%s(%s)" % (nm, sep.join(texts)))
        ofs.append(o_fn(ctx, name, vals))
    text = fsep.join(pieces)
    m = S.Matrix(text, ppi=ppi)
    px, py = ctx.real("px", -VAR, VAR), ctx.real("py", -VAR, VAR)
    q = S.Point(px, py) * m
    o = (px, py)
    for f in reversed(ofs):
        o = f(o)
    ctx.claim_points_eq("point*Matrix(string)", (q.x, q.y), o)
    # entries: image of origin and basis vectors
    o0 = (0, 0)
    for f in reversed(ofs):
        o0 = f(o0)
    ctx.claim_points_eq("translation entries", (m.e, m.f), o0)


def _mat(ctx, S, prefix):
    v = ctx.reals(" ".join(prefix + n for n in "abcdef"), -VAR, VAR)
    return S.Matrix(*v), tuple(v)


def o_compose(first, second):
    """matrix tuple for 'apply first, then second'"""
    a1, b1, c1, d1, e1, f1 = first
    a2, b2, c2, d2, e2, f2 = second
    return (a2 * a1 + c2 * b1, b2 * a1 + d2 * b1, a2 * c1 + c2 * d1, b2 * c1 + d2 * d1,
            a2 * e1 + c2 * f1 + e2, b2 * e1 + d2 * f1 + f2)


def claim_matrix_eq(ctx, name, m, t):
    ctx.claim(name, ctx.and_(*[ctx.eq(getattr(m, n), t[i]) for i, n in enumerate("abcdef")]))


def h_assoc_point(ctx):
    S = ctx.S
    A, ta = _mat(ctx, S, "A")
    B, tb = _mat(ctx, S, "B")
    px, py = ctx.reals("px py", -VAR, VAR)
    p = S.Point(px, py)
    lhs = p * (A * B)
    rhs = (p * A) * B
    ctx.claim_points_eq("p*(A*B)=(p*A)*B", (lhs.x, lhs.y), (rhs.x, rhs.y))
    o = o_apply(tb, o_apply(ta, (px, py)))
    ctx.claim_points_eq("p*(A*B)=oracle B(A(p))", (lhs.x, lhs.y), o)
    # in-place and matmul spellings
    C = S.Matrix(A)
    C *= B
    claim_matrix_eq(ctx, "A*=B", C, o_compose(ta, tb))
    claim_matrix_eq(ctx, "A@B", A @ B, o_compose(ta, tb))
    claim_matrix_eq(ctx, "operands unchanged (A)", A, ta)
    claim_matrix_eq(ctx, "operands unchanged (B)", B, tb)


def h_assoc_matrix(ctx):
    S = ctx.S
    A, ta = _mat(ctx, S, "A")
    B, tb = _mat(ctx, S, "B")
    C, tc = _mat(ctx, S, "C")
    l = A * (B * C)
    r = (A * B) * C
    claim_matrix_eq(ctx, "A*(B*C)=(A*B)*C", l, tuple(getattr(r, n) for n in "abcdef"))
    claim_matrix_eq(ctx, "A*(B*C)=oracle", l, o_compose(o_compose(ta, tb), tc))


def h_inverse(ctx):
    S = ctx.S
    M, t = _mat(ctx, S, "M")
    det = t[0] * t[3] - t[1] * t[2]
    ctx.assume(ctx.xne(det, 0))
    if ctx.mode == "concrete":
        ctx.assume(abs(det) > 1e-3)
    I = (1, 0, 0, 1, 0, 0)
    inv = ~M
    claim_matrix_eq(ctx, "~M*M=I", inv * M, I)
    claim_matrix_eq(ctx, "M*~M=I", M * inv, I)
    claim_matrix_eq(ctx, "~ leaves operand", M, t)
    claim_matrix_eq(ctx, "M*I=M", M * S.Matrix(), t)
    claim_matrix_eq(ctx, "I*M=M", S.Matrix() * M, t)
    claim_matrix_eq(ctx, "identity()", S.Matrix.identity(), I)
    px, py = ctx.reals("px py", -VAR, VAR)
    q = M.point_in_inverse_space(S.Point(px, py))
    back = o_apply(t, (q.x, q.y))
    ctx.claim_points_eq("point_in_inverse_space", back, (px, py))


OPS = {
    # op -> (kinds, oracle name)
    "scale": [("n",), ("n", "n"), ("n", "n", "l", "l")],
    "scale_x": [("n",), ("n", "l", "l")],
    "scale_y": [("n",), ("n", "l", "l")],
    "translate": [("l", "l"), ("l",)],
    "translate_x": [("l",)],
    "translate_y": [("l",)],
    "rotate": [("a",), ("a", "l", "l")],
    "skew": [("a", "a"), ("a", "a", "l", "l")],
    "skew_x": [("a",), ("a", "l", "l")],
    "skew_y": [("a",), ("a", "l", "l")],
}


def o_elem(ctx, op, args):
    """point map of the elementary operation"""
    n = len(args)
    if op == "scale":
        sx = args[0]
        sy = args[1] if n > 1 else sx
        cx, cy = (args[2], args[3]) if n == 4 else (0, 0)
        return lambda p: (cx + sx * (p[0] - cx), cy + sy * (p[1] - cy))
    if op == "scale_x":
        cx, cy = (args[1], args[2]) if n == 3 else (0, 0)
        return lambda p: (cx + args[0] * (p[0] - cx), p[1])
    if op == "scale_y":
        cx, cy = (args[1], args[2]) if n == 3 else (0, 0)
        return lambda p: (p[0], cy + args[0] * (p[1] - cy))
    if op == "translate":
        ty = args[1] if n > 1 else 0
        return lambda p: (p[0] + args[0], p[1] + ty)
    if op == "translate_x":
        return lambda p: (p[0] + args[0], p[1])
    if op == "translate_y":
        return lambda p: (p[0], p[1] + args[0])
    if op == "rotate":
        co, si = ctx.cos(args[0]), ctx.sin(args[0])
        cx, cy = (args[1], args[2]) if n == 3 else (0, 0)
        return lambda p: (cx + co * (p[0] - cx) - si * (p[1] - cy), cy + si * (p[0] - cx) + co * (p[1] - cy))
    if op in ("skew", "skew_x", "skew_y"):
        if op == "skew":
            ta, tb = ctx.tan(args[0]), ctx.tan(args[1])
            rest = args[2:]
        elif op == "skew_x":
            ta, tb = ctx.tan(args[0]), 0
            rest = args[1:]
        else:
            ta, tb = 0, ctx.tan(args[0])
            rest = args[1:]
        cx, cy = (rest[0], rest[1]) if len(rest) == 2 else (0, 0)
        return lambda p: (cx + (p[0] - cx) + ta * (p[1] - cy), cy + (p[1] - cy) + tb * (p[0] - cx))
    raise KeyError(op)


def h_prepost(ctx, op, kinds, which):
    S = ctx.S
    M, t = _mat(ctx, S, "M")
    args = [ctx.real("v%d" % i, -VAR, VAR) for i in range(len(kinds))]
    px, py = ctx.reals("px py", -VAR, VAR)
    elem = o_elem(ctx, op, args)
    m2 = S.Matrix(M)
    getattr(m2, "%s_%s" % (which, op))(*args)
    q = S.Point(px, py) * m2
    if which == "pre":
        o = o_apply(t, elem((px, py)))       # elementary first, then M
    else:
        o = elem(o_apply(t, (px, py)))       # M first, then elementary
    ctx.claim_points_eq("%s_%s" % (which, op), (q.x, q.y), o)
    if which == "pre" and len(kinds) <= 2:
        ctor = getattr(S.Matrix, op)(*args)
        q2 = S.Point(px, py) * ctor
        ctx.claim_points_eq("Matrix.%s constructor" % op, (q2.x, q2.y), elem((px, py)))


def h_cat(ctx):
    S = ctx.S
    M, t = _mat(ctx, S, "M")
    v = ctx.reals("n0 n1 n2 n3 n4 n5", -VAR, VAR)
    a = S.Matrix(M)
    a.pre_cat(*v)
    claim_matrix_eq(ctx, "pre_cat", a, o_compose(tuple(v), t))
    b = S.Matrix(M)
    b.post_cat(*v)
    claim_matrix_eq(ctx, "post_cat", b, o_compose(t, tuple(v)))


# twin: deliberately wrong oracle (left-most first) must be refuted
def h_string_twin(ctx):
    S = ctx.S
    a, tx = ctx.reals("a tx", -VAR, VAR)
    m = S.Matrix("rotate(%srad) translate(%s, 0)" % (a, tx))
    px, py = ctx.reals("px py", -VAR, VAR)
    q = S.Point(px, py) * m
    f1 = o_fn(ctx, "rotate", [a])
    f2 = o_fn(ctx, "translate", [tx, 0])
    o = f2(f1((px, py)))   # WRONG on purpose: applies rotate first
    ctx.claim_points_eq("twin", (q.x, q.y), o)


def _func_variants(tier, position):
    out = []
    for name, arities in SIG.items():
        for kinds in arities:
            aunits = [""]
            lunits = [""]
            if "a" in kinds and (position == 0 or tier == "thorough"):
                aunits = ["", "deg", "grad", "rad", "turn"]
            if "l" in kinds and name.startswith("translate") and (position == 0 or tier == "thorough"):
                lunits = ["", "px", "pt", "pc", "in"]
            for au in aunits:
                for lu in lunits:
                    out.append([name, list(kinds), au, lu])
    return out


def harnesses(tier):
    hs = []
    hs.append({"name": "algebra/assoc_point", "fn": "h_assoc_point"})
    hs.append({"name": "algebra/assoc_matrix", "fn": "h_assoc_matrix"})
    hs.append({"name": "algebra/inverse_identity", "fn": "h_inverse"})
    hs.append({"name": "algebra/cat", "fn": "h_cat"})
    for op, arities in OPS.items():
        for kinds in arities:
            for which in ("pre", "post"):
                hs.append({"name": "algebra/%s_%s/%d" % (which, op, len(kinds)), "fn": "h_prepost",
                           "params": {"op": op, "kinds": list(kinds), "which": which}})
    singles = _func_variants(tier, 0)
    for f in singles:
        hs.append({"name": "string/1/%s%d%s%s" % (f[0], len(f[1]), f[2], f[3]), "fn": "h_string", "params": {"funcs": [f]}})
    # separators and letter case on single functions with >=2 args
    for f in singles:
        if len(f[1]) >= 2 and not f[2] and not f[3]:
            for sep, tag in ((" ", "sp"), (",", "c"), (" , ", "spc"), ("  ", "sp2")):
                for case in ("lower", "upper"):
                    hs.append({"name": "string/sep/%s%d/%s/%s" % (f[0], len(f[1]), tag, case), "fn": "h_string",
                               "params": {"funcs": [f], "sep": sep, "case": case}})
    plain = [f for f in _func_variants("quick", 1)]
    firsts = singles if tier == "thorough" else [f for f in singles if not f[3] and f[2] in ("", "rad")]
    for f0 in firsts:
        for f1 in plain:
            hs.append({"name": "string/2/%s%d%s%s+%s%d" % (f0[0], len(f0[1]), f0[2], f0[3], f1[0], len(f1[1])), "fn": "h_string",
                       "params": {"funcs": [f0, f1]}})
    # upper-case spellings of the units as well as of the function names ("any letter case")
    for au in ("deg", "grad", "rad", "turn"):
        for fn_ in ("rotate", "skewx"):
            hs.append({"name": "string/upper_units/%s/%s" % (fn_, au), "fn": "h_string", "params": {"funcs": [[fn_, ["a"], au, ""]], "case": "upper"}})
    for lu in ("px", "pt", "pc", "in"):
        hs.append({"name": "string/upper_units/translate/%s" % lu, "fn": "h_string", "params": {"funcs": [["translate", ["l", "l"], "", lu]], "case": "upper"}})
    # lengths with units anywhere in the list: before and after a function they do not commute with, and next to each other
    allv = _func_variants("thorough", 0)
    unitf = [f for f in allv if f[3] in ("in", "pt", "pc") and f[0] in ("translate", "translatex", "translatey") and (tier == "thorough" or (f[0], f[3], len(f[1])) in
             (("translate", "in", 1), ("translate", "pt", 2), ("translatex", "pc", 1), ("translatey", "in", 1)))]
    partners = [f for f in plain if (f[0], len(f[1])) in (("matrix", 6), ("rotate", 3), ("translate", 2), ("scale", 2), ("skewx", 1))]
    for u in unitf:
        for q in partners:
            hs.append({"name": "string/units/%s%d%s+%s%d" % (u[0], len(u[1]), u[3], q[0], len(q[1])), "fn": "h_string", "params": {"funcs": [u, q]}})
            hs.append({"name": "string/units/%s%d+%s%d%s" % (q[0], len(q[1]), u[0], len(u[1]), u[3]), "fn": "h_string", "params": {"funcs": [q, u]}})
        u2 = unitf[(unitf.index(u) + 1) % len(unitf)]
        hs.append({"name": "string/units/%s%d%s+%s%d%s" % (u[0], len(u[1]), u[3], u2[0], len(u2[1]), u2[3]), "fn": "h_string", "params": {"funcs": [u, u2]}})
    if tier == "thorough":
        for f0 in plain:
            for f1 in plain:
                for f2 in plain:
                    hs.append({"name": "string/3/%s%d+%s%d+%s%d" % (f0[0], len(f0[1]), f1[0], len(f1[1]), f2[0], len(f2[1])),
                               "fn": "h_string", "params": {"funcs": [f0, f1, f2], "fsep": ","}})
    hs.append({"name": "twin/order", "fn": "h_string_twin", "twin": True})
    return hs
