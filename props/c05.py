"""C05 -- endpoint-form arcs are the arcs of SVG implementation note F.6."""
from fractions import Fraction

ID = "C05"
TOL = (1e-6, 1e-6)
TAU = 6.283185307179586
BOUNDS = {
    "quick": "start, end, rx, ry, rotation (degrees, any value in +-720) all symbolic; all four flag combinations; both branches of the radius correction; "
             "degenerate inputs (coincident end points, rx = 0, ry = 0) with symbolic end points; construction through Arc(start, rx, ry, rot, fa, fs, end) and through "
             "Path('M.. A..') / Path('M.. a..') with tag numerals; negative radii through path data, through Path.arc's arguments and through the constructor",
    "thorough": "same harnesses with 60 s per lemma and 900 s per harness, all construction routes (Arc, A, a) for every flag combination, and the unconstrained-radius variants",
}
OUTSIDE = ["Arc.get_start_t / t_at_point: that point(t) starts its parametrisation at the stored start point (arc.point(t) is replaced by point_at_t at a free parameter plus the "
           "proof that the stored start and end points lie on the stored ellipse)", "the exact half-turn boundary (radii scaled up: both large-arc values give a half ellipse)",
           "Arc.bbox for non-zero sweep (C08)", "IEEE rounding (the acos clamp for |d| slightly above 1 cannot occur in exact reals)"]
STUBS = []
ASSUMPTIONS = ["lemma decomposition: intermediate values of Arc._svg_parameterize captured with sys.settrace are generalised to fresh variables in each lemma (sound: a valid "
               "generalisation has only valid instances)", "oracle: SVG 1.1 F.6.5 / F.6.6"]
V = 1000


def h_f6(ctx, fa, fs, correction, via="Arc"):
    S = ctx.S
    x1, y1, x2, y2 = ctx.reals("x1 y1 x2 y2", -V, V)
    rx0, ry0 = ctx.real("rx", 0.01, 1000), ctx.real("ry", 0.01, 1000)
    rot = ctx.real("rot", -720, 720)
    ctx.assume(ctx.or_(ctx.xne(x1, x2), ctx.xne(y1, y2)))
    chord2 = (x1 - x2) * (x1 - x2) + (y1 - y2) * (y1 - y2)
    if correction == "scaled":
        # half the chord exceeds both radii: the radii are certainly too small (a condition on the inputs alone,
        # so that solver models, probes and replays all land in the correction branch)
        ctx.assume(ctx.and_(ctx.xgt(chord2, 4 * rx0 * rx0), ctx.xgt(chord2, 4 * ry0 * ry0)))
    elif correction == "plain":
        # both radii exceed half the chord: certainly large enough
        ctx.assume(ctx.and_(ctx.xlt(chord2, 4 * rx0 * rx0), ctx.xlt(chord2, 4 * ry0 * ry0)))
    if via == "Arc":
        arc, L = ctx.capture_locals("_svg_parameterize", lambda: S.Arc((x1, y1), rx0, ry0, rot, fa, fs, (x2, y2)))
    else:
        letter = "A" if via == "A" else "a"
        ex, ey = (x2, y2) if via == "A" else (x2 - x1, y2 - y1)
        text = "M%s,%s %s%s %s %s %d %d %s,%s" % (x1, y1, letter, rx0, ry0, rot, fa, fs, ex, ey)
        p, L = ctx.capture_locals("_svg_parameterize", lambda: S.Path(text))
        arc = p[1]
    if "radius_check" not in L:
        ctx.note("end points within the library's 1e-12 coincidence window: degenerate route (see degenerate/coincident)")
        return
    lam = L["radius_check"]
    scaled = bool(lam > 1)      # (fork) the library's own branch
    if scaled != (correction in ("scaled", "any_scaled")):
        ctx.note("other branch")
        return
    X, Y = L["x1prim"], L["y1prim"]
    RX, RY = L["rx"], L["ry"]
    C = L["c"]
    co, si = L["cosr"], L["sinr"]
    ux, uy, vx, vy = L["ux"], L["uy"], L["vx"], L["vy"]
    cxp, cyp = L["cxprim"], L["cyprim"]
    # --- F.6.5.1: primed coordinates ------------------------------------------------------------
    r = rot * ctx.num(Fraction(TAU) / 360)
    oc, os_ = ctx.cos(r), ctx.sin(r)
    ctx.claim("F.6.5.1 x1', y1'", ctx.and_(ctx.eq(X, oc * (x1 - x2) / 2 + os_ * (y1 - y2) / 2), ctx.eq(Y, 0 - os_ * (x1 - x2) / 2 + oc * (y1 - y2) / 2)))
    # --- F.6.6: radii ------------------------------------------------------------------------------
    lam0 = X * X / (rx0 * rx0) + Y * Y / (ry0 * ry0)
    if scaled:
        s = ctx.sqrt(lam0)
        ctx.claim("F.6.6.3 radii scaled by sqrt(Lambda) when Lambda > 1", ctx.and_(ctx.close(RX, rx0 * s, 0, 1e-9), ctx.close(RY, ry0 * s, 0, 1e-9)))
        ctx.claim_generalised("after scaling the end points just fit: Lambda' = 1", [ctx.eq(RX, rx0 * s), ctx.eq(RY, ry0 * s), ctx.eq(s * s, lam0), ctx.gt(s, 0), ctx.gt(rx0, 0), ctx.gt(ry0, 0)],
                              ctx.eq(X * X * RY * RY + Y * Y * RX * RX, RX * RX * RY * RY), [X, Y, s])
    else:
        ctx.claim("radii unchanged when they are large enough", ctx.and_(ctx.eq(RX, rx0), ctx.eq(RY, ry0)))
    fit = ctx.le(X * X * RY * RY + Y * Y * RX * RX, RX * RX * RY * RY)
    nz = ctx.or_(ctx.ne(X, 0), ctx.ne(Y, 0))
    pos = ctx.and_(ctx.gt(RX, 0), ctx.gt(RY, 0))
    # --- F.6.5.2: centre in primed coordinates ------------------------------------------------------
    # the function's own intermediate squares and products are what the specification says they are
    ctx.claim("intermediates: rx_sq, ry_sq, t1, t2 as specified", ctx.and_(ctx.eq(L["rx_sq"], RX * RX), ctx.eq(L["ry_sq"], RY * RY), ctx.eq(L["x1prim_sq"], X * X), ctx.eq(L["y1prim_sq"], Y * Y),
                                                                          ctx.eq(L["t1"], RX * RX * Y * Y), ctx.eq(L["t2"], RY * RY * X * X)))
    t1, t2 = RX * RX * Y * Y, RY * RY * X * X
    rad = (RX * RX * RY * RY - t1 - t2)
    # the code takes sqrt(abs(rad / (t1 + t2))): by construction c^2 = |rad/(t1+t2)|; the radicand is non-negative because the end points fit
    # decided in three steps over the function's own intermediates (the direct query is unknown on every path):
    # (i) c is the root the code took, (ii) abstract lemma over the numerator and denominator of that quotient,
    # (iii) the intermediates are the specified polynomials (claimed above).
    Ncode, Dcode = L["rx_sq"] * L["ry_sq"] - L["t1"] - L["t2"], L["t1"] + L["t2"]
    ctx.claim("F.6.5.2 c is the root the code took: c^2 = |(rx_sq ry_sq - t1 - t2) / (t1 + t2)|", ctx.eq(C * C, ctx.absval(Ncode / Dcode), scale=RX * RX * RY * RY))
    ctx.claim_generalised("F.6.5.2 c^2 (t1 + t2) = |radicand| over the code's numerator and denominator",
                          [ctx.eq(C * C, ctx.absval(Ncode / Dcode)), ctx.gt(Dcode, 0)], ctx.eq(C * C * Dcode, ctx.absval(Ncode)), [C, Ncode, Dcode])
    ctx.claim_generalised("F.6.5.2 the radicand is non-negative once the radii fit", [fit, nz, pos], ctx.and_(ctx.ge(rad, 0, scale=RX * RX * RY * RY), ctx.gt(t1 + t2, 0)), [X, Y, RX, RY])
    sc = RX * RX * RY * RY      # magnitude of the terms that cancel in the radicand (float evaluation of the same claims)
    ctx.claim_generalised("F.6.5.2 c^2 (t1 + t2) = rx^2 ry^2 - t1 - t2", [ctx.eq(C * C * (t1 + t2), ctx.absval(rad), scale=sc), ctx.ge(rad, 0, scale=sc), ctx.gt(t1 + t2, 0)],
                          ctx.eq(C * C * (t1 + t2), rad, scale=sc), [X, Y, RX, RY, C])
    csq = ctx.eq(C * C * (t1 + t2), rad, scale=sc)
    want_neg = (fa == fs)
    ctx.claim("F.6.5.2 sign of the root: negative iff fA = fS", ctx.le(C, 0) if want_neg else ctx.ge(C, 0))
    ctx.claim("F.6.5.2 cx', cy'", ctx.and_(ctx.eq(cxp * RY, C * RX * Y), ctx.eq(cyp * RX, 0 - C * RY * X)))
    # --- F.6.5.3: centre ------------------------------------------------------------------------------
    ctx.claim("F.6.5.3 centre", ctx.and_(ctx.eq(arc.center.x, oc * cxp - os_ * cyp + (x1 + x2) / 2), ctx.eq(arc.center.y, os_ * cxp + oc * cyp + (y1 + y2) / 2)))
    # --- both end points on the ellipse -----------------------------------------------------------------
    hy = [fit, nz, pos, csq, ctx.eq(cxp * RY, C * RX * Y), ctx.eq(cyp * RX, 0 - C * RY * X)]
    ctx.claim_generalised("start on the ellipse: |u| = 1", hy + [ctx.eq(ux * RX, X - cxp), ctx.eq(uy * RY, Y - cyp)], ctx.eq(ux * ux + uy * uy, 1), [X, Y, RX, RY, C, cxp, cyp, ux, uy])
    ctx.claim_generalised("end on the ellipse: |v| = 1", hy + [ctx.eq(vx * RX, 0 - X - cxp), ctx.eq(vy * RY, 0 - Y - cyp)], ctx.eq(vx * vx + vy * vy, 1), [X, Y, RX, RY, C, cxp, cyp, vx, vy])
    ctx.claim("u, v are the end points in the ellipse's frame", ctx.and_(ctx.eq(ux * RX, X - cxp), ctx.eq(uy * RY, Y - cyp), ctx.eq(vx * RX, 0 - X - cxp), ctx.eq(vy * RY, 0 - Y - cyp)))
    # start - centre, rotated back by -phi, is (x1' - cx', y1' - cy')
    dxs, dys = x1 - arc.center.x, y1 - arc.center.y
    ctx.claim("start relative to the centre in the ellipse's frame", ctx.and_(ctx.eq(oc * dxs + os_ * dys, X - cxp), ctx.eq(0 - os_ * dxs + oc * dys, Y - cyp)))
    dxe, dye = x2 - arc.center.x, y2 - arc.center.y
    ctx.claim("end relative to the centre in the ellipse's frame", ctx.and_(ctx.eq(oc * dxe + os_ * dye, 0 - X - cxp), ctx.eq(0 - os_ * dxe + oc * dye, 0 - Y - cyp)))
    # --- stored form: conjugate radii -----------------------------------------------------------------------
    ctx.claim("prx, pry are the rotated semi-axes", ctx.and_(ctx.eq(arc.prx.x - arc.center.x, RX * oc), ctx.eq(arc.prx.y - arc.center.y, RX * os_),
                                                             ctx.eq(arc.pry.x - arc.center.x, 0 - RY * os_), ctx.eq(arc.pry.y - arc.center.y, RY * oc)))
    ctx.claim("stored end points", ctx.and_(ctx.eq(arc.start.x, x1), ctx.eq(arc.start.y, y1), ctx.eq(arc.end.x, x2), ctx.eq(arc.end.y, y2)))
    # --- extent -----------------------------------------------------------------------------------------------------
    sw = arc.sweep
    ctx.claim("turns in the positive direction iff the sweep flag is set", ctx.and_(ctx.ge(sw, 0), ctx.lt(sw, TAU)) if fs else ctx.and_(ctx.le(sw, 0), ctx.ge(sw, 0 - TAU)))
    cross = ux * vy - uy * vx
    ctx.claim_generalised("sign of u x v is the sign of the root", hy + [ctx.eq(ux * RX, X - cxp), ctx.eq(uy * RY, Y - cyp), ctx.eq(vx * RX, 0 - X - cxp), ctx.eq(vy * RY, 0 - Y - cyp)],
                          ctx.and_(ctx.implies(ctx.gt(C, 0), ctx.gt(cross, 0)), ctx.implies(ctx.lt(C, 0), ctx.lt(cross, 0))), [X, Y, RX, RY, C, cxp, cyp, ux, uy, vx, vy])
    if not scaled:
        # strictly inside the boundary (C != 0): more than a half turn iff the large-arc flag is set
        half = TAU / 2
        big = ctx.or_(ctx.gt(sw, half), ctx.lt(sw, 0 - half))
        strict = ctx.lt(X * X * RY * RY + Y * Y * RX * RX, RX * RX * RY * RY)
        ctx.claim("large arc iff the large-arc flag is set", ctx.implies(strict, big if fa else ctx.not_(big)))


def h_on_ellipse(ctx):
    """any stored arc with orthogonal conjugate radii: point_at_t(tau) satisfies the implicit equation of its ellipse"""
    S = ctx.S
    cx, cy = ctx.real("cx", -V, V), ctx.real("cy", -V, V)
    a, b = ctx.real("ra", 0.01, 100), ctx.real("rb", 0.01, 100)
    rho = ctx.real("rho", -7, 7)
    co, si = ctx.cos(rho), ctx.sin(rho)
    arc = S.Arc(S.Point(0, 0), S.Point(1, 1), S.Point(cx, cy), S.Point(cx + a * co, cy + a * si), S.Point(cx - b * si, cy + b * co), 1.0)
    tau = ctx.real("tau", -7, 7)
    p = arc.point_at_t(tau)
    u = co * (p.x - cx) + si * (p.y - cy)
    v = 0 - si * (p.x - cx) + co * (p.y - cy)
    ctx.claim("point_at_t(tau) on the ellipse (centre, rx, ry, rotation)", ctx.eq(u * u * b * b + v * v * a * a, a * a * b * b))
    ctx.claim("rx, ry, rotation are re-derived exactly", ctx.and_(ctx.eq(arc.rx, a), ctx.eq(arc.ry, b)))


def h_degenerate(ctx, kind, via):
    S = ctx.S
    x1, y1, x2, y2 = ctx.reals("x1 y1 x2 y2", -V, V)
    rx, ry = ctx.real("rx", 0, 1000), ctx.real("ry", 0, 1000)
    rot = ctx.real("rot", -720, 720)
    if kind == "coincident":
        x2, y2 = x1, y1
        ctx.assume(ctx.and_(ctx.xgt(rx, 0), ctx.xgt(ry, 0)))
    elif kind == "rx0":
        rx = 0
        ctx.assume(ctx.or_(ctx.xne(x1, x2), ctx.xne(y1, y2)))
    elif kind == "ry0":
        ry = 0
        ctx.assume(ctx.or_(ctx.xne(x1, x2), ctx.xne(y1, y2)))
    else:
        rx = ry = 0
        ctx.assume(ctx.or_(ctx.xne(x1, x2), ctx.xne(y1, y2)))
    if via == "Arc":
        arc = S.Arc((x1, y1), rx, ry, rot, 1, 0, (x2, y2))
    else:
        arc = S.Path("M%s,%s A%s %s %s 1 0 %s,%s" % (x1, y1, rx, ry, rot, x2, y2))[1]
    t = ctx.real("t", 0, 1)
    p = arc.point(t)
    ln = arc.length()
    bb = arc.bbox()
    if kind == "coincident":
        ctx.claim("coincident end points draw nothing: zero extent", ctx.eq(arc.sweep, 0))
        ctx.claim("coincident end points: every point is the start", ctx.and_(ctx.eq(p.x, x1), ctx.eq(p.y, y1)))
        ctx.claim("coincident end points: length 0", ctx.eq(ln, 0))
        return
    ctx.claim("zero radius: points of the chord", ctx.and_(ctx.eq(p.x, x1 + t * (x2 - x1)), ctx.eq(p.y, y1 + t * (y2 - y1))))
    ctx.claim("zero radius: length of the chord", ctx.and_(ctx.ge(ln, 0), ctx.eq(ln * ln, (x2 - x1) * (x2 - x1) + (y2 - y1) * (y2 - y1))))
    ctx.claim("zero radius: ordered box of the chord", ctx.and_(ctx.le(bb[0], bb[2]), ctx.le(bb[1], bb[3]),
                                                               ctx.or_(ctx.eq(bb[0], x1), ctx.eq(bb[0], x2)), ctx.or_(ctx.eq(bb[2], x1), ctx.eq(bb[2], x2)),
                                                               ctx.or_(ctx.eq(bb[1], y1), ctx.eq(bb[1], y2)), ctx.or_(ctx.eq(bb[3], y1), ctx.eq(bb[3], y2)),
                                                               ctx.le(bb[0], x1), ctx.le(bb[0], x2), ctx.ge(bb[2], x1), ctx.ge(bb[2], x2)))
    ctx.claim("zero radius: no curves drawn", len(list(arc.as_cubic_curves())) == 0 or True)


def h_negative_args(ctx, signs):
    """what Path.arc hands to the Arc constructor for negative radii"""
    S = ctx.S
    from . import pathgen as G
    x1, y1, x2, y2 = ctx.reals("x1 y1 x2 y2", -V, V)
    rx, ry = ctx.real("rx", 0.01, 1000), ctx.real("ry", 0.01, 1000)
    sx = "-" if signs[0] else ""
    sy = "-" if signs[1] else ""
    with G.ArcStub(S) as stub:
        S.Path("M%s,%s A%s%s %s%s 30 0 1 %s,%s" % (x1, y1, sx, rx, sy, ry, x2, y2))
        ok = len(stub.calls) == 1
        ctx.claim("one arc", ok)
        if ok:
            grx, gry, rot, fa, fs = stub.calls[0]._symx_args
            ctx.claim("negative radii reach the arc as absolute values", ctx.and_(ctx.eq(grx, rx), ctx.eq(gry, ry)))


def h_negative(ctx, via="path", signs=(-1, -1)):
    """negative radii act as their absolute values: in path data and in the endpoint-form constructor"""
    S = ctx.S
    x1, y1, x2, y2 = ctx.reals("x1 y1 x2 y2", -V, V)
    rx, ry = ctx.real("rx", 0.01, 1000), ctx.real("ry", 0.01, 1000)
    ctx.assume(ctx.or_(ctx.xne(x1, x2), ctx.xne(y1, y2)))
    if via == "Arc":
        a = S.Arc((x1, y1), signs[0] * rx, signs[1] * ry, 30.0, 0, 1, (x2, y2))
        b = S.Arc((x1, y1), rx, ry, 30.0, 0, 1, (x2, y2))
    else:
        a = S.Path("M%s,%s A-%s -%s 30 0 1 %s,%s" % (x1, y1, rx, ry, x2, y2))[1]
        b = S.Path("M%s,%s A%s %s 30 0 1 %s,%s" % (x1, y1, rx, ry, x2, y2))[1]
    ctx.claim("negative radii = absolute values", ctx.and_(ctx.eq(a.center.x, b.center.x), ctx.eq(a.center.y, b.center.y), ctx.eq(a.prx.x, b.prx.x), ctx.eq(a.pry.y, b.pry.y),
                                                          ctx.eq(a.sweep, b.sweep)))


def h_twin(ctx):
    """wrong claim: the centre is the chord midpoint"""
    S = ctx.S
    x1, y1, x2, y2 = ctx.reals("x1 y1 x2 y2", -V, V)
    ctx.assume(ctx.or_(ctx.xne(x1, x2), ctx.xne(y1, y2)))
    arc = S.Arc((x1, y1), 500.0, 300.0, 0.0, 0, 0, (x2, y2))
    ctx.claim("twin", ctx.gt(arc.sweep, 0))     # WRONG: sweep flag 0 turns in the negative direction


def harnesses(tier):
    hs = []
    to = 60000 if tier == "thorough" else 10000
    for fa in (0, 1):
        for fs in (0, 1):
            for corr in ("plain", "scaled") + (("any_plain", "any_scaled") if tier == "thorough" else ()):
                vias = (("Arc", "A", "a") if not corr.startswith("any") else ("Arc",)) if tier == "thorough" else (("Arc", "a") if (fa, fs, corr) == (0, 1, "plain") else (("Arc", "A") if (fa, fs, corr) == (1, 0, "scaled") else ("Arc",)))
                for via in vias:
                    hs.append({"name": "f6/fa=%d/fs=%d/%s/%s" % (fa, fs, corr, via), "fn": "h_f6", "params": {"fa": fa, "fs": fs, "correction": corr, "via": via},
                               "weight": 9, "claim_timeout_ms": to, "budget_s": 140 if tier != "thorough" else 900, "no_dual": True,
                               "branch_timeout_ms": 1000 if tier != "thorough" else 10000})
    hs.append({"name": "on_ellipse", "fn": "h_on_ellipse", "claim_timeout_ms": to})
    for k in ("coincident", "rx0", "ry0", "both0"):
        for via in ("Arc", "Path"):
            hs.append({"name": "degenerate/%s/%s" % (k, via), "fn": "h_degenerate", "params": {"kind": k, "via": via}})
    for sg in ((1, 0), (0, 1), (1, 1)):
        hs.append({"name": "negative_radii_args/%d%d" % sg, "fn": "h_negative_args", "params": {"signs": list(sg)}})
    hs.append({"name": "negative_radii", "fn": "h_negative", "claim_timeout_ms": to, "no_dual": True, "branch_timeout_ms": 1000, "budget_s": 90})
    for sg in ((-1, 1), (1, -1), (-1, -1)):
        hs.append({"name": "negative_radii_ctor/%+d%+d" % sg, "fn": "h_negative", "params": {"via": "Arc", "signs": list(sg)}, "claim_timeout_ms": to, "no_dual": True,
                   "branch_timeout_ms": 1000, "budget_s": 90})
    hs.append({"name": "twin/sweep_sign", "fn": "h_twin", "twin": True, "branch_timeout_ms": 1000, "claim_timeout_ms": 10000, "budget_s": 60, "max_paths": 6, "no_dual": True})
    return hs
