"""C13 -- colour spellings denote their CSS/SVG RGBA values; accessors are consistent."""
from fractions import Fraction
from .svgcolors import TABLE

ID = "C13"
TOL = (1e-6, 1e-9)
BOUNDS = {
    "quick": "keywords: ALL strings of ASCII letters of every length 3..20 (any case) against the 147-entry table + transparent/none; hex: all strings of 3,4,6,8 hex digits "
             "with and without '#'; rgb()/rgba() with 1-3 symbolic decimal digits per channel and symbolic alpha, percentages and hsl()/hsla() with symbolic real numbers "
             "(in-range, out-of-range, negative, fractional); accessors over all 32-bit RGBA values (four symbolic 8-bit fields) and setter arguments in -1000..1000",
    "thorough": "same plus spaces inside keywords and whitespace variants of the functional notations",
}
OUTSIDE = ["Color(c.hex) == c and the hex/hexa/hexrgb strings (C-level %02x formatting of a symbolic int)", "hue getter and the hue/saturation/lightness setters round trip",
           "numeric spellings inside rgb()/hsl() beyond plain digits (shared float pattern, C01-lex)", "hsl channels are compared with a +-1 band (the library truncates, CSS rounds)", "angle units inside hsl() (the library's pattern accepts a bare number only)"]
STUBS = []
ASSUMPTIONS = ["oracle: SVG 1.1 colour keyword table transcribed from the specification; CSS Color 3 formulas for rgb%/hsl",
               "bit-or of symbolic ints is accepted only after the solver proves the operands occupy disjoint bit fields on the path"]

LETTERS = "abcdefghijklmnopqrstuvwxyzABCDEFGHIJKLMNOPQRSTUVWXYZ"
HEX = "0123456789abcdefABCDEF"


def pack(r, g, b, a):
    return r * 16777216 + g * 65536 + b * 256 + a


def lower_ord(ctx, o):
    return ctx.ite(ctx.and_(ctx.ge(o, 65), ctx.le(o, 90)), o + 32, o)


def h_keyword(ctx, n):
    S = ctx.S
    text = ctx.chars("s", [LETTERS] * n)
    ords = ctx.ordinals(text)
    low = [lower_ord(ctx, o) for o in ords]
    v = S.Color.parse(text)
    if v is None:
        ctx.claim("None only for 'none'", n == 4 and ctx.and_(*[ctx.eq(low[i], ord(ch)) for i, ch in enumerate("none")]))
        return
    ctx.claim("keyword parse returns an int", isinstance(v, int))
    conds = []
    table = dict(TABLE)
    for k, (r, g, b) in table.items():
        if len(k) != n:
            continue
        is_k = ctx.and_(*[ctx.eq(low[i], ord(ch)) for i, ch in enumerate(k)])
        conds.append(ctx.implies(is_k, ctx.eq(v, pack(r, g, b, 255))))
    if n == len("transparent"):
        is_k = ctx.and_(*[ctx.eq(low[i], ord(ch)) for i, ch in enumerate("transparent")])
        conds.append(ctx.implies(is_k, ctx.eq(v, 0)))
    if conds:
        ctx.claim("keyword value[len=%d]" % n, ctx.and_(*conds))
    c = S.Color(text)
    ctx.claim("Color(text).value = parse(text)", ctx.eq(c.value, v))


def h_none(ctx):
    S = ctx.S
    ctx.claim("none", S.Color.parse("none") is None and S.Color("none").value is None and S.Color.parse(None) is None)
    c = S.Color("none")
    ctx.claim("none accessors", c.red is None and c.alpha is None and c.hex is None and c.rgb is None and c.opacity is None)
    ctx.claim("transparent", S.Color("transparent").value == 0 and S.Color("TRANSPARENT").alpha == 0)


def hexval(ctx, o):
    return ctx.ite(ctx.le(o, 57), o - 48, ctx.ite(ctx.le(o, 70), o - 55, o - 87))


def h_hex(ctx, n, hashmark):
    S = ctx.S
    alph = (["#"] if hashmark else []) + [HEX] * n
    text = ctx.chars("s", alph)
    ords = ctx.ordinals(text)[1 if hashmark else 0:]
    d = [hexval(ctx, o) for o in ords]
    if n == 3:
        r, g, b, a = d[0] * 17, d[1] * 17, d[2] * 17, 255
    elif n == 4:
        r, g, b, a = d[0] * 17, d[1] * 17, d[2] * 17, d[3] * 17
    elif n == 6:
        r, g, b, a = d[0] * 16 + d[1], d[2] * 16 + d[3], d[4] * 16 + d[5], 255
    else:
        r, g, b, a = d[0] * 16 + d[1], d[2] * 16 + d[3], d[4] * 16 + d[5], d[6] * 16 + d[7]
    c = S.Color(text)
    ctx.claim("hex%d value" % n, ctx.eq(c.value, pack(r, g, b, a)))
    ctx.claim("hex%d channels" % n, ctx.and_(ctx.eq(c.red, r), ctx.eq(c.green, g), ctx.eq(c.blue, b), ctx.eq(c.alpha, a)))


def clamp255(ctx, v):
    return ctx.ite(ctx.gt(v, 255), 255, ctx.ite(ctx.lt(v, 0), 0, v))


def alpha_of(ctx, o):
    """alpha byte of an opacity number: clamp to [0,1], round(255*o)"""
    oc = ctx.ite(ctx.gt(o, 1), 1, ctx.ite(ctx.lt(o, 0), 0, o))
    return oc * 255


def h_rgb_int(ctx, nd, alpha, neg=False, fn="rgb"):
    """rgb(D..,D..,D..[,alpha]) with symbolic decimal digits"""
    S = ctx.S
    DIG = "0123456789"
    alph = list(fn + "(")
    spans = []
    for ch in range(3):
        if ch:
            alph += [","]
        if neg and ch == 1:
            alph += ["-"]
        spans.append((len(alph), nd[ch]))
        alph += [DIG] * nd[ch]
    if alpha:
        alph += [",", "0", "."]
        spans.append((len(alph), 2))
        alph += [DIG, DIG]
    alph += [")"]
    text = ctx.chars("s", alph)
    ords = ctx.ordinals(text)
    vals = []
    for st, n in spans:
        v = 0
        for i in range(n):
            v = v * 10 + (ords[st + i] - 48)
        vals.append(v)
    r, g, b = vals[0], (0 - vals[1]) if neg else vals[1], vals[2]
    c = S.Color(text)
    ctx.claim("rgb int channels", ctx.and_(ctx.eq(c.red, clamp255(ctx, r)), ctx.eq(c.green, clamp255(ctx, g)), ctx.eq(c.blue, clamp255(ctx, b))))
    if alpha:
        o = vals[3] * ctx.num(Fraction(1, 100))
        ctx.claim("rgba alpha", ctx.le(ctx.absval(c.alpha - 255 * o), ctx.num(Fraction(1, 2))))
    else:
        ctx.claim("rgb alpha opaque", ctx.eq(c.alpha, 255))


def h_rgb_pct(ctx, alpha):
    S = ctx.S
    p = ctx.reals("p0 p1 p2", -300, 300)
    if alpha:
        o = ctx.real("o", -3, 3)
        text = "rgba(%s%%, %s%%, %s%%, %s)" % (p[0], p[1], p[2], o)
    else:
        text = "rgb(%s%%,%s%%,%s%%)" % (p[0], p[1], p[2])
    c = S.Color(text)
    half = ctx.num(Fraction(1, 2))
    conds = []
    for ch, pv in zip((c.red, c.green, c.blue), p):
        want = clamp255(ctx, pv * 255 / 100)
        conds.append(ctx.le(ctx.absval(ch - want), half))
    ctx.claim("rgb%% channels within half a unit of 255*p/100 (clamped)", ctx.and_(*conds))
    if alpha:
        ctx.claim("rgba%% alpha", ctx.le(ctx.absval(c.alpha - alpha_of(ctx, o)), half))
    else:
        ctx.claim("rgb%% alpha opaque", ctx.eq(c.alpha, 255))


def o_hue2rgb(ctx, m1, m2, h):
    h = ctx.frac(h)
    if h * 6 < 1:
        return m1 + (m2 - m1) * h * 6
    if h * 2 < 1:
        return m2
    if h * 3 < 2:
        return m1 + (m2 - m1) * (ctx.num(Fraction(2, 3)) - h) * 6
    return m1


def h_hsl(ctx, alpha, unit=""):
    S = ctx.S
    hdeg = ctx.real("h", -1500, 1500)
    sp, lp = ctx.reals("s l", -50, 150)
    if alpha:
        o = ctx.real("o", -3, 3)
        text = "hsla(%s%s, %s%%, %s%%, %s)" % (hdeg, unit, sp, lp, o)
    else:
        text = "hsl(%s%s,%s%%,%s%%)" % (hdeg, unit, sp, lp)
    c = S.Color(text)
    turns = {"": hdeg / 360, "deg": hdeg / 360, "turn": hdeg, "grad": hdeg / 400}[unit]
    s = sp / 100
    l = lp / 100
    s = 1 if s > 1 else (0 if s < 0 else s)
    l = 1 if l > 1 else (0 if l < 0 else l)
    m2 = l * (s + 1) if l <= ctx.num(Fraction(1, 2)) else l + s - l * s
    m1 = l * 2 - m2
    third = ctx.num(Fraction(1, 3))
    want = [o_hue2rgb(ctx, m1, m2, turns + third), o_hue2rgb(ctx, m1, m2, turns), o_hue2rgb(ctx, m1, m2, turns - third)]
    conds = []
    for ch, w in zip((c.red, c.green, c.blue), want):
        conds.append(ctx.le(ctx.absval(ch - clamp255(ctx, w * 255)), 1))
    ctx.claim("hsl channels (hue modulo a turn)", ctx.and_(*conds))
    if alpha:
        ctx.claim("hsla alpha", ctx.le(ctx.absval(c.alpha - alpha_of(ctx, o)), ctx.num(Fraction(1, 2))))
    else:
        ctx.claim("hsl alpha opaque", ctx.eq(c.alpha, 255))


def _fields(ctx, prefix=""):
    return [ctx.integer(prefix + n, 0, 255) for n in ("r", "g", "b", "a")]


def _value(ctx, prefix=""):
    """four symbolic 8-bit fields and their packing; the field-extraction facts are first proved by the solver
    from the ranges alone and then added as lemmas (sound: they are consequences), which keeps div/mod reasoning cheap"""
    r, g, b, a = _fields(ctx, prefix)
    v = pack(r, g, b, a)
    lemmas = [ctx.eq(ctx.idiv(v, 16777216), r), ctx.eq(ctx.imod(ctx.idiv(v, 65536), 256), g), ctx.eq(ctx.imod(ctx.idiv(v, 256), 256), b),
              ctx.eq(ctx.imod(v, 256), a), ctx.eq(ctx.idiv(v, 256), r * 65536 + g * 256 + b), ctx.eq(ctx.imod(ctx.idiv(v, 256), 16777216), r * 65536 + g * 256 + b),
              ctx.eq(ctx.imod(ctx.idiv(v, 16777216), 256), r)]
    for i, lem in enumerate(lemmas):
        ctx.claim("lemma%d: field extraction from the packed value" % i, lem)
        ctx.assume(lem)
    return r, g, b, a, v


def h_getters(ctx, part):
    S = ctx.S
    r, g, b, a, v = _value(ctx)
    c = S.Color(rgba=v)
    if part == "hsl":
        return _getters_hsl(ctx, c, r, g, b)
    ctx.claim("getters read their field", ctx.and_(ctx.eq(c.red, r), ctx.eq(c.green, g), ctx.eq(c.blue, b), ctx.eq(c.alpha, a), ctx.eq(c.value, v), ctx.eq(c.rgba, v)))
    ctx.claim("rgb packing", ctx.eq(c.rgb, r * 65536 + g * 256 + b))
    ctx.claim("bgr packing", ctx.eq(c.bgr, b * 65536 + g * 256 + r))
    ctx.claim("argb packing", ctx.eq(c.argb, a * 16777216 + r * 65536 + g * 256 + b))
    ctx.claim("opacity", ctx.eq(c.opacity * 255, a))
    ctx.claim("int()", ctx.eq(c.__int__(), v))
    c2 = S.Color(c)
    ctx.claim("Color(Color)", ctx.eq(c2.value, v))
    c3 = S.Color(r, g, b, a)
    ctx.claim("Color(r,g,b,a)", ctx.eq(c3.value, v))
    c4 = S.Color(r, g, b)
    ctx.claim("Color(r,g,b)", ctx.eq(c4.value, pack(r, g, b, 255)))
    c5 = abs(c)
    ctx.claim("abs(color) is opaque", ctx.eq(c5.value, pack(r, g, b, 255)))


def _getters_hsl(ctx, c, r, g, b):
    # lightness / saturation (piecewise rational)
    mx = r if r >= g else g
    mx = mx if mx >= b else b
    mn = r if r <= g else g
    mn = mn if mn <= b else b
    ctx.claim("lightness", ctx.eq(c.lightness * 510, mx + mn))
    sat = c.saturation
    if mx == mn:
        ctx.claim("saturation grey", ctx.eq(sat, 0))
    elif mx + mn < 255:
        ctx.claim("saturation dark", ctx.eq(sat * (mx + mn), mx - mn))
    else:
        ctx.claim("saturation light", ctx.eq(sat * (510 - mx - mn), mx - mn))


def h_setter(ctx, which):
    S = ctx.S
    r, g, b, a, v = _value(ctx)
    c = S.Color(rgba=v)
    x = ctx.integer("x", -1000, 1000)
    if which in ("red", "green", "blue", "alpha"):
        setattr(c, which, x)
        cx = clamp255(ctx, x)
        want = {"red": (cx, g, b, a), "green": (r, cx, b, a), "blue": (r, g, cx, a), "alpha": (r, g, b, cx)}[which]
        ctx.claim("set %s changes only %s (clamped)" % (which, which), ctx.eq(c.value, pack(*want)))
    elif which == "opacity":
        o = ctx.real("o", -2, 3)
        c.opacity = o
        ctx.claim("set opacity keeps rgb", ctx.and_(ctx.eq(c.red, r), ctx.eq(c.green, g), ctx.eq(c.blue, b)))
        ctx.claim("set opacity alpha", ctx.le(ctx.absval(c.alpha - clamp255(ctx, o * 255)), ctx.num(Fraction(1, 2))))
    elif which in ("rgb", "bgr", "argb", "rgba"):
        r2, g2, b2, a2 = _fields(ctx, "n")
        if which == "rgb":
            c.rgb = r2 * 65536 + g2 * 256 + b2
            want = (r2, g2, b2, 255)
        elif which == "bgr":
            c.bgr = b2 * 65536 + g2 * 256 + r2
            want = (r2, g2, b2, 255)
        elif which == "argb":
            c.argb = a2 * 16777216 + r2 * 65536 + g2 * 256 + b2
            want = (r2, g2, b2, a2)
        else:
            c.rgba = pack(r2, g2, b2, a2)
            want = (r2, g2, b2, a2)
        ctx.claim("set %s value" % which, ctx.eq(c.value, pack(*want)))
        ctx.claim("set %s then getters" % which, ctx.and_(ctx.eq(c.red, want[0]), ctx.eq(c.green, want[1]), ctx.eq(c.blue, want[2]), ctx.eq(c.alpha, want[3]),
                                                          ctx.eq(c.rgb, want[0] * 65536 + want[1] * 256 + want[2]),
                                                          ctx.eq(c.argb, want[3] * 16777216 + want[0] * 65536 + want[1] * 256 + want[2])))
        k = S.Color(**{which: {"rgb": r2 * 65536 + g2 * 256 + b2, "bgr": b2 * 65536 + g2 * 256 + r2,
                               "argb": a2 * 16777216 + r2 * 65536 + g2 * 256 + b2, "rgba": pack(r2, g2, b2, a2)}[which]})
        ctx.claim("Color(%s=) value" % which, ctx.eq(k.value, pack(*want)))


def h_equality(ctx):
    S = ctx.S
    r, g, b, a = _fields(ctx)
    r2, g2, b2, a2 = _fields(ctx, "n")
    c1 = S.Color(rgba=pack(r, g, b, a))
    c2 = S.Color(rgba=pack(r2, g2, b2, a2))
    same = (c1 == c2)
    diff = (c1 != c2)
    ctx.claim("!= is not ==", same != diff)
    eqfields = ctx.and_(ctx.eq(r, r2), ctx.eq(g, g2), ctx.eq(b, b2), ctx.eq(a, a2))
    ctx.claim("== iff all fields equal", eqfields if same else ctx.not_(eqfields))
    ctx.claim("== int", bool(c1 == pack(r, g, b, a)))


def h_twin(ctx):
    S = ctx.S
    r, g, b, a = _fields(ctx)
    c = S.Color(rgba=pack(r, g, b, a))
    ctx.claim("twin", ctx.eq(c.bgr, r * 65536 + g * 256 + b))   # WRONG on purpose


def harnesses(tier):
    hs = []
    for n in range(3, 21):
        hs.append({"name": "keyword/len%d" % n, "fn": "h_keyword", "params": {"n": n}, "weight": 3})
    hs.append({"name": "none_transparent", "fn": "h_none"})
    for n in (3, 4, 6, 8):
        for hm in (True, False):
            hs.append({"name": "hex/%d/%s" % (n, "hash" if hm else "bare"), "fn": "h_hex", "params": {"n": n, "hashmark": hm}})
    for nd in ([1, 1, 1], [3, 2, 1], [2, 3, 3]) + (([3, 3, 3],) if tier == "thorough" else ()):
        hs.append({"name": "rgb_int/%s" % "".join(map(str, nd)), "fn": "h_rgb_int", "params": {"nd": nd, "alpha": False}})
    hs.append({"name": "rgba_int/323", "fn": "h_rgb_int", "params": {"nd": [3, 2, 3], "alpha": True, "fn": "rgba"}})
    hs.append({"name": "rgb_int/neg", "fn": "h_rgb_int", "params": {"nd": [2, 2, 2], "alpha": False, "neg": True}})
    hs.append({"name": "rgb_int/alpha_in_rgb", "fn": "h_rgb_int", "params": {"nd": [1, 2, 3], "alpha": True, "fn": "rgb"}})
    for al in (False, True):
        hs.append({"name": "rgb_pct/%s" % al, "fn": "h_rgb_pct", "params": {"alpha": al}})
        if al and tier != "thorough":
            continue
        hs.append({"name": "hsl/%s" % al, "fn": "h_hsl", "params": {"alpha": al}, "weight": 9, "branch_timeout_ms": 2000, "claim_timeout_ms": 20000})
    hs.append({"name": "getters/fields", "fn": "h_getters", "params": {"part": "fields"}, "weight": 9})
    hs.append({"name": "getters/hsl", "fn": "h_getters", "params": {"part": "hsl"}, "weight": 9, "claim_timeout_ms": 20000})
    for w in ("red", "green", "blue", "alpha", "opacity", "rgb", "bgr", "argb", "rgba"):
        hs.append({"name": "setter/" + w, "fn": "h_setter", "params": {"which": w}})
    hs.append({"name": "equality", "fn": "h_equality"})
    hs.append({"name": "twin/bgr", "fn": "h_twin", "twin": True})
    return hs
