"""C20 -- writing a document and parsing it back preserves shapes and paint."""
import io
import os
import tempfile
from . import docgen as D
from . import c03

ID = "C20"
TOL = (1e-6, 1e-2)   # abs: six-decimal matrices times coordinates up to 1e3
BOUNDS = {
    "quick": "constructor-built trees: SVG (viewBox present/absent, sizes) > [Group >] one or two shapes of every kind (rect, rounded rect, circle, ellipse, line, polyline, "
             "polygon, path with curves and arcs) x transform class {identity, translate+scale, reflection, general matrix, skew} x paint {opaque, with alpha, none}; "
             "parsed documents: the C03 skeleton family with reify in {True, False}; writers string_xml, write_xml plain and .svgz; all numbers symbolic",
    "thorough": "every shape kind at both positions and every transform class on both shapes",
}
OUTSIDE = ["six-decimal precision of written matrices and C-level number formatting (numbers cross the text as tags)", "images with pixel data, text", "arc geometry beyond stored points/sweep"]
STUBS = []
ASSUMPTIONS = ["oracle: the source tree's own absolute geometry (abs(Path(shape))) and paint"]


def paint_of(S, sh):
    def col(c):
        if c is None:
            return None
        return c.value
    return col(sh.fill), col(sh.stroke)


def compare_trees(ctx, S, tag, a_shapes, b_shapes, check_ids=True, width=True):
    ok = len(a_shapes) == len(b_shapes)
    ctx.claim(tag + " shape count", ok, lambda: "%d vs %d" % (len(a_shapes), len(b_shapes)))
    if not ok:
        return
    for i, (a, b) in enumerate(zip(a_shapes, b_shapes)):
        fam = {"Circle": "Round", "Ellipse": "Round"}   # a circle reified under a non-uniform scale is an ellipse
        ka, kb = fam.get(type(a).__name__, type(a).__name__), fam.get(type(b).__name__, type(b).__name__)
        ctx.claim("%s shape%d kind" % (tag, i), ka == kb, lambda: "%s vs %s" % (ka, kb))
        pa, pb = abs(S.Path(a)), abs(S.Path(b))
        ok = len(pa) == len(pb) and all(type(x) is type(y) for x, y in zip(pa, pb))
        ctx.claim("%s shape%d segment kinds" % (tag, i), ok, lambda: "%s vs %s" % ([type(x).__name__ for x in pa], [type(x).__name__ for x in pb]))
        if ok:
            conds = []
            for x, y in zip(pa, pb):
                if x.end is None or y.end is None:
                    conds.append((x.end is None) == (y.end is None))
                    continue
                conds.append(ctx.and_(ctx.eq(x.end.x, y.end.x), ctx.eq(x.end.y, y.end.y)))
                if isinstance(x, S.QuadraticBezier):
                    conds.append(ctx.and_(ctx.eq(x.control.x, y.control.x), ctx.eq(x.control.y, y.control.y)))
                if isinstance(x, S.CubicBezier):
                    conds.append(ctx.and_(ctx.eq(x.control1.x, y.control1.x), ctx.eq(x.control1.y, y.control1.y),
                                          ctx.eq(x.control2.x, y.control2.x), ctx.eq(x.control2.y, y.control2.y)))
                if isinstance(x, S.Arc):
                    conds.append(ctx.and_(ctx.eq(x.center.x, y.center.x), ctx.eq(x.center.y, y.center.y)))
            ctx.claim("%s shape%d absolute geometry" % (tag, i), ctx.and_(*conds))
        fa, sa = paint_of(S, a)
        fb, sb = paint_of(S, b)
        ctx.claim("%s shape%d fill" % (tag, i), fa == fb, lambda: "%r vs %r" % (fa, fb))
        ctx.claim("%s shape%d stroke" % (tag, i), sa == sb, lambda: "%r vs %r" % (sa, sb))
        if width and sa is not None:
            ctx.claim("%s shape%d stroke width" % (tag, i), ctx.eq(a.implicit_stroke_width, b.implicit_stroke_width))
        if check_ids:
            ctx.claim("%s shape%d id" % (tag, i), a.id == b.id, lambda: "%r vs %r" % (a.id, b.id))


def roundtrip(ctx, S, svg, tag, writer="string"):
    import xml.etree.ElementTree as ET
    if writer == "string":
        text = svg.string_xml()
    else:
        d = tempfile.mkdtemp(prefix="symx_c20_")
        try:
            if writer == "file":
                fn = os.path.join(d, "out.svg")
                svg.write_xml(fn)
                text = open(fn, encoding="utf-8").read()
            else:
                import gzip
                fn = os.path.join(d, "out.svgz")
                svg.write_xml(fn)
                text = gzip.open(fn, "rb").read().decode("utf-8")
        finally:
            for f in os.listdir(d):
                os.remove(os.path.join(d, f))
            os.rmdir(d)
    try:
        ET.fromstring(text)
        wf = True
    except ET.ParseError:
        wf = False
    ctx.claim(tag + " output is well-formed XML", wf, lambda: text[:300])
    if not wf:
        return None, text
    back = S.SVG.parse(io.StringIO(text))
    return back, text


TRANSFORMS = {
    "identity": None,
    "aniso": "translate(%s, %s) scale(%s, %s)",
    "ts": "translate(%s, %s) scale(%s)",
    "reflect": "scale(-%s, %s) translate(%s, %s)",
    "matrix": "matrix(%s, %s, %s, %s, %s, %s)",
    "skew": "skewX(%s) translate(%s, %s)",
}


def mk_transform(ctx, S, num, kind):
    t = TRANSFORMS[kind]
    if t is None:
        return S.Matrix()
    n = t.count("%s")
    if kind == "ts":
        vals = (num(), num(), num(0.1, 10))
    elif kind == "aniso":
        vals = (num(), num(), num(0.1, 10), num(0.1, 10))
    elif kind == "reflect":
        vals = (num(0.1, 10), num(0.1, 10), num(), num())
    elif kind == "matrix":
        vals = tuple(num(-10, 10) for _ in range(6))
    else:
        vals = (num(-60, 60), num(), num())
    m = S.Matrix(t % vals)
    if kind == "matrix":
        ctx.assume(ctx.xne(m.a * m.d - m.b * m.c, 0))
    return m


PAINTS = {
    "opaque": dict(fill="teal", stroke="maroon"),
    "alpha": dict(fill="#10203080", stroke="#a0b0c040"),
    "none": dict(fill="none", stroke="navy"),
    "nostroke": dict(fill="olive", stroke="none"),
    "transparent": dict(fill="transparent", stroke="#0000"),
    "zero_alpha": dict(fill="#ff000000", stroke="rgba(0, 0, 0, 0)"),
}


def mk_shape(ctx, S, num, kind, tr, paint, sid):
    kw = dict(PAINTS[paint])
    kw["stroke_width"] = num(0.01, 50)
    kw["id"] = sid
    m = mk_transform(ctx, S, num, tr)
    if kind == "rect":
        s = S.Rect(num(), num(), num.pos(), num.pos(), **kw)
    elif kind == "rrect":
        w, h = num(10, 1000), num(10, 1000)
        s = S.Rect(num(), num(), w, h, num(0.1, 4), num(0.1, 4), **kw)
    elif kind == "circle":
        s = S.Circle(num(), num(), num.pos(), **kw)
    elif kind == "ellipse":
        s = S.Ellipse(num(), num(), num.pos(), num.pos(), **kw)
    elif kind == "line":
        s = S.SimpleLine(num(), num(), num(), num(), **kw)
    elif kind == "polyline":
        s = S.Polyline((num(), num()), (num(), num()), (num(), num()), **kw)
    elif kind == "polygon":
        s = S.Polygon((num(), num()), (num(), num()), (num(), num()), **kw)
    elif kind == "path":
        s = S.Path("M%s,%s L%s,%s Q%s,%s %s,%s C%s,%s %s,%s %s,%s z m%s,%s l%s,%s" % tuple(num() for _ in range(18)), **kw)
    elif kind == "path_rel":
        s = S.Path("m%s,%s l%s,%s t%s,%s s%s,%s %s,%s h%s v%s z" % tuple(num() for _ in range(12)), **kw)
    else:
        raise KeyError(kind)
    s.transform = m
    return s


def h_built(ctx, kinds, trs, paint, viewbox, group, writer="string", reify_first=False, zeros=False):
    S = ctx.S
    num = D.Num(ctx)
    num.nonzero = not zeros     # attribute values are non-zero here; exact zeros (falsy attributes are skipped by the writer) have their own harnesses
    if viewbox:
        svg = S.SVG(viewBox="%s %s %s %s" % (num(), num(), num.pos(), num.pos()), width=num.pos(), height=num.pos())
    else:
        svg = S.SVG(width=num.pos(), height=num.pos())
    parent = svg
    if group:
        g = S.Group(id="grp")
        svg.append(g)
        parent = g
    for i, (k, t) in enumerate(zip(kinds, trs)):
        sh = mk_shape(ctx, S, num, k, t, paint, "s%d" % i)
        if reify_first:
            sh.reify()
        parent.append(sh)
    src = D.lib_shapes(S, svg)
    back, text = roundtrip(ctx, S, svg, "gen1", writer)
    if back is None:
        return
    b1 = D.lib_shapes(S, back)
    compare_trees(ctx, S, "gen1", src, b1)
    back2, text2 = roundtrip(ctx, S, back, "gen2")
    if back2 is None:
        return
    compare_trees(ctx, S, "gen2 (stable)", b1, D.lib_shapes(S, back2))


def h_parsed(ctx, spec, reify, caller=None, gen2=True):
    S = ctx.S
    ppi = 96.0
    doc = D.Doc(ctx, spec, ppi, nonzero=True)
    svg = S.SVG.parse(io.StringIO(doc.text), reify=reify)
    src = D.lib_shapes(S, svg)
    back, text = roundtrip(ctx, S, svg, "gen1")
    if back is None:
        return
    b1 = D.lib_shapes(S, back)
    compare_trees(ctx, S, "gen1", src, b1, check_ids=True)
    if not gen2:
        return
    back2, _ = roundtrip(ctx, S, back, "gen2")
    if back2 is not None:
        compare_trees(ctx, S, "gen2 (stable)", b1, D.lib_shapes(S, back2))


def h_zero(ctx, kind, which):
    """exact zeros in attributes that the writer skips when falsy"""
    S = ctx.S
    num = D.Num(ctx)
    num.nonzero = True
    svg = S.SVG(width=num.pos(), height=num.pos())
    kw = dict(fill="teal", stroke="maroon", stroke_width=num(0.01, 50), id="z")
    z = {n: (0 if n in which else num()) for n in ("a", "b", "c", "d")}
    if kind == "rect":
        sh = S.Rect(z["a"], z["b"], num.pos(), num.pos(), **kw)
    elif kind == "circle":
        sh = S.Circle(z["a"], z["b"], num.pos(), **kw)
    elif kind == "ellipse":
        sh = S.Ellipse(z["a"], z["b"], num.pos(), num.pos(), **kw)
    elif kind == "line":
        sh = S.SimpleLine(z["a"], z["b"], z["c"], z["d"], **kw)
    else:
        sh = S.Polyline((z["a"], z["b"]), (z["c"], z["d"]), (num(), num()), **kw)
    svg.append(sh)
    back, text = roundtrip(ctx, S, svg, "zero")
    if back is not None:
        compare_trees(ctx, S, "zero", D.lib_shapes(S, svg), D.lib_shapes(S, back))


def h_twin(ctx):
    """wrong claim: the re-read rect is at the origin"""
    S = ctx.S
    num = D.Num(ctx)
    svg = S.SVG(width=100, height=100)
    svg.append(S.Rect(num(), num(), num.pos(), num.pos(), fill="red", stroke="none"))
    back = S.SVG.parse(io.StringIO(svg.string_xml()))
    r = D.lib_shapes(S, back)[0]
    ctx.claim("twin", ctx.eq(r.x, 0))


KINDS = ["rect", "rrect", "circle", "ellipse", "line", "polyline", "polygon", "path", "path_rel"]


def harnesses(tier):
    hs = []
    trs = list(TRANSFORMS)
    paints = list(PAINTS)
    i = 0
    for k in KINDS:
        for t in trs:
            p = paints[i % len(paints)]
            vb = (i % 2 == 0)
            grp = (i % 3 == 0)
            i += 1
            hs.append({"name": "built/%s/%s/%s/vb=%s/g=%s" % (k, t, p, vb, grp), "fn": "h_built",
                       "params": {"kinds": [k], "trs": [t], "paint": p, "viewbox": vb, "group": grp}})
            if tier == "thorough":
                # two-shape documents: two further paints per (kind, transform), viewBox present and absent
                for p2 in (paints[(i + 1) % len(paints)], paints[(i + 3) % len(paints)]):
                    for vb2 in ((True, False) if p2 == paints[(i + 1) % len(paints)] else (vb,)):
                        hs.append({"name": "built/%s/%s/%s/vb=%s/x" % (k, t, p2, vb2), "fn": "h_built",
                                   "params": {"kinds": [k, "rect"], "trs": [t, "ts"], "paint": p2, "viewbox": vb2, "group": True}})
    for k in KINDS:
        for t in ("ts", "aniso"):
            hs.append({"name": "built_reified/%s/%s" % (k, t), "fn": "h_built",
                       "params": {"kinds": [k], "trs": [t], "paint": "opaque", "viewbox": t == "ts", "group": False, "reify_first": True}})
    for k in ("rect", "circle", "ellipse", "line", "polyline"):
        for which in ("a", "b", "ab", "abcd"):
            hs.append({"name": "zero/%s/%s" % (k, which), "fn": "h_zero", "params": {"kind": k, "which": which}})
    for w in ("file", "svgz"):
        hs.append({"name": "writer/%s" % w, "fn": "h_built", "params": {"kinds": ["rect", "path"], "trs": ["ts", "matrix"], "paint": "alpha", "viewbox": True, "group": True, "writer": w}})
    j = 0
    for name, spec, kw in c03.skeletons(tier):
        if "caller" in kw or name.startswith("use/dangling"):
            continue
        j += 1
        for reify in (True, False):
            if tier != "thorough" and reify != (j % 2 == 0):
                continue
            gen2 = tier == "thorough" or j % 4 == 0
            hs.append({"name": "parsed/%s/reify=%s" % (name, reify), "fn": "h_parsed", "params": {"spec": spec, "reify": reify, "gen2": gen2}, "weight": 3})
    hs.append({"name": "twin/origin", "fn": "h_twin", "twin": True})
    return hs
