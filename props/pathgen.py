"""Shared path-data skeleton generator and the reference (specification) interpreter.

A skeleton is a list of commands [letter, groups, zfinal]: `groups` argument groups
(implicit repetition), `zfinal` = the last coordinate pair of the last group is
replaced by an SVG 2 segment-completing 'z'.  All numbers are harness inputs
(symbolic reals in the symbolic run, floats in a replay)."""

ARGS = {"M": "p", "L": "p", "H": "x", "V": "y", "C": "ppp", "S": "pp", "Q": "pp", "T": "p", "A": "rrafFp", "Z": ""}
LETTERS = "MmZzLlHhVvCcSsQqTtAa"
V = 1e5


class Gen:
    def __init__(self, ctx, prefix="n", lo=-V, hi=V):
        self.ctx = ctx
        self.k = 0
        self.prefix = prefix
        self.lo, self.hi = lo, hi

    def num(self, lo=None, hi=None):
        v = self.ctx.real("%s%d" % (self.prefix, self.k), self.lo if lo is None else lo, self.hi if hi is None else hi)
        self.k += 1
        return v


def flags_for(index):
    return ((index >> 1) & 1, index & 1)


def build(ctx, cmds, gen=None, sep=" ", flagseed=0):
    """-> (text pieces per command, abstract commands) ; abstract command = (letter, [args...]) with
    args numbers / ('z',) markers"""
    gen = gen or Gen(ctx)
    pieces = []
    abstract = []
    fl = flagseed
    for letter, groups, zfinal in cmds:
        kinds = ARGS[letter.upper()]
        texts = []
        groups_abs = []
        for g in range(groups if kinds else 0):
            ga = []
            gt = []
            for j, k in enumerate(kinds):
                last_pair = (g == groups - 1) and zfinal and j == len(kinds) - 1 and k == "p"
                if last_pair:
                    ga.append("z")
                    gt.append("z")
                elif k == "p":
                    x, y = gen.num(), gen.num()
                    ga.append((x, y))
                    gt.append("%s,%s" % (x, y))
                elif k in "xy":
                    x = gen.num()
                    ga.append(x)
                    gt.append("%s" % x)
                elif k == "r":
                    x = gen.num(-1000, 1000)
                    ga.append(x)
                    gt.append("%s" % x)
                elif k == "a":
                    x = gen.num(-720, 720)
                    ga.append(x)
                    gt.append("%s" % x)
                elif k in "fF":
                    f = (fl >> (0 if k == "f" else 1)) & 1
                    if k == "F":
                        fl += 1
                    ga.append(f)
                    gt.append("%d" % f)
            groups_abs.append(ga)
            texts.append(sep.join(gt))
        pieces.append(letter + (" " if texts else "") + sep.join(texts))
        abstract.append((letter, groups_abs))
    return pieces, abstract


def reflect(p, about):
    return (2 * about[0] - p[0], 2 * about[1] - p[1])


class Interp:
    """SVG path-data semantics (SVG 1.1 8.3 / SVG 2 9.3), written from the specification."""

    def __init__(self, cur=None, start=None, last=None):
        self.cur = cur          # current point or None (nothing drawn yet)
        self.start = start      # start of the current subpath
        self.last = last        # ('Q'|'C', control point) of the previous command if it was a curve
        self.segs = []

    def _abs(self, p, rel):
        if p == "z":
            return self.start
        if rel and self.cur is not None:
            return (p[0] + self.cur[0], p[1] + self.cur[1])
        return (p[0], p[1])

    def run(self, abstract):
        for letter, groups in abstract:
            self.command(letter, groups)
        return self.segs

    def command(self, letter, groups):
        rel = letter.islower()
        up = letter.upper()
        if up == "Z":
            self.segs.append(dict(kind="Close", start=self.cur, end=self.start))
            self.cur = self.start
            self.last = None
            return
        for gi, g in enumerate(groups):
            if up == "M":
                p = self._abs(g[0], rel)
                if gi == 0:
                    self.segs.append(dict(kind="Move", start=self.cur, end=p))
                    self.start = p
                else:
                    self.segs.append(dict(kind="Line", start=self.cur, end=p))
                self.cur = p
                self.last = None
            elif up == "L":
                p = self._abs(g[0], rel)
                self.segs.append(dict(kind="Line", start=self.cur, end=p))
                self.cur = p
                self.last = None
            elif up == "H":
                x = g[0] + self.cur[0] if rel else g[0]
                p = (x, self.cur[1])
                self.segs.append(dict(kind="Line", start=self.cur, end=p))
                self.cur = p
                self.last = None
            elif up == "V":
                y = g[0] + self.cur[1] if rel else g[0]
                p = (self.cur[0], y)
                self.segs.append(dict(kind="Line", start=self.cur, end=p))
                self.cur = p
                self.last = None
            elif up == "C":
                c1, c2, e = self._abs(g[0], rel), self._abs(g[1], rel), self._abs(g[2], rel)
                self.segs.append(dict(kind="Cubic", start=self.cur, c1=c1, c2=c2, end=e))
                self.cur = e
                self.last = ("C", c2)
            elif up == "S":
                c1 = reflect(self.last[1], self.cur) if self.last and self.last[0] == "C" else self.cur
                c2, e = self._abs(g[0], rel), self._abs(g[1], rel)
                self.segs.append(dict(kind="Cubic", start=self.cur, c1=c1, c2=c2, end=e))
                self.cur = e
                self.last = ("C", c2)
            elif up == "Q":
                c, e = self._abs(g[0], rel), self._abs(g[1], rel)
                self.segs.append(dict(kind="Quad", start=self.cur, c=c, end=e))
                self.cur = e
                self.last = ("Q", c)
            elif up == "T":
                c = reflect(self.last[1], self.cur) if self.last and self.last[0] == "Q" else self.cur
                e = self._abs(g[0], rel)
                self.segs.append(dict(kind="Quad", start=self.cur, c=c, end=e))
                self.cur = e
                self.last = ("Q", c)
            elif up == "A":
                rx, ry, rot, fa, fs, p = g
                e = self._abs(p, rel)
                self.segs.append(dict(kind="Arc", start=self.cur, end=e, arc=(rx, ry, rot, fa, fs)))
                self.cur = e
                self.last = None
            if "z" in g:
                # SVG 2 segment-completing close path: the segment ends at the subpath start and the subpath is closed
                self.segs.append(dict(kind="Close", start=self.cur, end=self.start))
                self.cur = self.start
                self.last = None


KIND_CLASS = {"Move": "Move", "Line": "Line", "Close": "Close", "Quad": "QuadraticBezier", "Cubic": "CubicBezier", "Arc": "Arc"}


def grammar_ok(cmds):
    """path must begin with a move; a command other than a move may not be the very first"""
    return bool(cmds) and cmds[0][0] in "Mm"


class ArcStub:
    """replaces Arc._svg_parameterize by a recorder (arc geometry is C05's subject)"""

    def __init__(self, S, sweep_fn=None):
        self.S = S
        self.calls = []
        self.orig = S.Arc._svg_parameterize
        self.sweep_fn = sweep_fn

    def __enter__(self):
        stub = self

        def rec(arc, start, rx, ry, rotation, fa, fs, end):
            S = stub.S
            arc.start = S.Point(start) if start is not None else None
            arc.end = S.Point(end) if end is not None else None
            arc.center = S.Point(0, 0)
            arc.prx = S.Point(0, 0)
            arc.pry = S.Point(0, 0)
            arc.sweep = stub.sweep_fn(len(stub.calls)) if stub.sweep_fn else 0
            arc._symx_args = (rx, ry, rotation, bool(fa), bool(fs))
            stub.calls.append(arc)
        self.S.Arc._svg_parameterize = rec
        return self

    def __exit__(self, *a):
        self.S.Arc._svg_parameterize = self.orig
        return False


def pt_eq(ctx, p, q):
    """library Point p vs oracle tuple q"""
    if p is None or q is None:
        return (p is None) == (q is None)
    return ctx.and_(ctx.eq(p.x, q[0]), ctx.eq(p.y, q[1]))


def compare(ctx, segs, osegs, tag, check_move_start=True):
    """claims that the library's segment list equals the oracle's"""
    S = ctx.S
    ok_n = len(segs) == len(osegs)
    ctx.claim(tag + " segment count", ok_n, lambda: "%d != %d" % (len(segs), len(osegs)))
    if not ok_n:
        return
    kinds_ok = all(type(s).__name__ == KIND_CLASS[o["kind"]] for s, o in zip(segs, osegs))
    ctx.claim(tag + " segment kinds", kinds_ok, lambda: "%s vs %s" % ([type(s).__name__ for s in segs], [o["kind"] for o in osegs]))
    if not kinds_ok:
        return
    for i, (s, o) in enumerate(zip(segs, osegs)):
        conds = []
        if o["kind"] != "Move" or check_move_start:
            if not (o["kind"] == "Move" and i == 0):
                conds.append(pt_eq(ctx, s.start, o["start"]))
        conds.append(pt_eq(ctx, s.end, o["end"]))
        if o["kind"] == "Quad":
            conds.append(pt_eq(ctx, s.control, o["c"]))
        elif o["kind"] == "Cubic":
            conds.append(pt_eq(ctx, s.control1, o["c1"]))
            conds.append(pt_eq(ctx, s.control2, o["c2"]))
        elif o["kind"] == "Arc" and hasattr(s, "_symx_args"):
            rx, ry, rot, fa, fs = s._symx_args
            orx, ory, orot, ofa, ofs = o["arc"]
            conds.append(ctx.eq(rx, ctx.absval(orx)))
            conds.append(ctx.eq(ry, ctx.absval(ory)))
            conds.append(ctx.eq(rot, orot))
            conds.append(bool(fa) == bool(ofa) and bool(fs) == bool(ofs))
        ctx.claim("%s seg%d %s points" % (tag, i, o["kind"]), ctx.and_(*conds))
    # connectivity and closes, recomputed from public fields
    conn = []
    zpt = None
    for i, s in enumerate(segs):
        if isinstance(s, S.Move) or zpt is None:
            zpt = s.end
        if i > 0:
            conn.append(pt_eq(ctx, s.start, (segs[i - 1].end.x, segs[i - 1].end.y)) if segs[i - 1].end is not None else False)
        if isinstance(s, S.Close):
            conn.append(pt_eq(ctx, s.end, (zpt.x, zpt.y)))
    if conn:
        ctx.claim(tag + " connected, closes return to subpath start", ctx.and_(*conn))
