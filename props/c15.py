"""C15 -- lengths are true arc lengths, isometry-invariant, and drive point(t) (decidable parts)."""
from copy import copy

ID = "C15"
TOL = (1e-6, 1e-6)
BOUNDS = {
    "quick": "Line/Close length = Euclidean distance and its invariance under rotation (symbolic angle), translation, reflection, reversal and scaling by |s|; "
             "Shape._calc_lengths/length/point on paths of <=5 segments (moves and zero-length segments at every position) with segment lengths replaced by arbitrary "
             "non-negative solver variables: total, cumulative-interval law for all t in (0,1), point(0)/point(1), no division by zero; Arc.length circle shortcut for all "
             "centres/radii/sweeps incl. coincident end points with a non-zero sweep; QuadraticBezier.length degenerate (collinear, doubling-back) branch against the closed form; point(t) after reverse() of the path or of its subpath view (cached lengths)",
    "thorough": "paths of 6 segments",
}
OUTSIDE = ["'equals the true arc length to within the requested error' for non-degenerate quadratics (logarithm), cubics (adaptive recursion whose depth depends on the values) "
           "and elliptical arcs (elliptic integral): no SMT theory expresses the integral -- NOT APPLICABLE to this technique", "float accumulation in the cumulative fractions"]
STUBS = ["in the cumulative-law harness each segment's length() returns a harness-chosen non-negative solver variable and point() returns (segment index, local fraction)"]
ASSUMPTIONS = ["oracle: Euclidean distance; closed form of a collinear quadratic that doubles back: |f(t*)| + |f(t*) - f(1)| with f'(t*) = 0"]
V = 1000


def h_linear(ctx, kind, what):
    S = ctx.S
    x1, y1, x2, y2 = ctx.reals("x1 y1 x2 y2", -V, V)
    cls = S.Line if kind == "Line" else S.Close
    seg = cls((x1, y1), (x2, y2))
    ln = seg.length()
    d2 = (x2 - x1) * (x2 - x1) + (y2 - y1) * (y2 - y1)
    ctx.claim("%s length is the Euclidean distance" % kind, ctx.and_(ctx.ge(ln, 0), ctx.eq(ln * ln, d2)))
    if what == "rotate":
        phi = ctx.real("phi", -7, 7)
        co, si = ctx.cos(phi), ctx.sin(phi)
        e, f = ctx.reals("e f", -V, V)
        img = seg * S.Matrix(co, si, 0 - si, co, e, f)
        l2 = img.length()
        ctx.claim("%s length invariant under rotation+translation" % kind, ctx.and_(ctx.ge(l2, 0), ctx.eq(l2 * l2, d2)))
    elif what == "reflect":
        img = seg * S.Matrix(1, 0, 0, -1, 0, 0)
        l2 = img.length()
        ctx.claim("%s length invariant under reflection" % kind, ctx.and_(ctx.ge(l2, 0), ctx.eq(l2 * l2, d2)))
    elif what == "scale":
        k = ctx.real("k", -10, 10)
        img = seg * S.Matrix(k, 0, 0, k, 0, 0)
        l2 = img.length()
        ctx.claim("%s length scales by |s|" % kind, ctx.and_(ctx.ge(l2, 0), ctx.eq(l2 * l2, k * k * d2)))
    else:
        r = copy(seg)
        r.reverse()
        l2 = r.length()
        ctx.claim("%s length invariant under reversal" % kind, ctx.and_(ctx.ge(l2, 0), ctx.eq(l2 * l2, d2)))


def h_cumulative(ctx, kinds):
    """kinds: string over 'M' (move, contributes nothing), 'S' (segment with symbolic length >= 0), 'Z' (segment of length exactly 0)"""
    S = ctx.S
    lens = []
    segs = []
    for i, k in enumerate(kinds):
        if k == "M":
            sg = S.Move((0, 0), (i, i))
            lens.append(0)
        else:
            sg = S.Line((i, 0), (i + 1, 0))
            lv = ctx.real("len%d" % i, 0, 1000) if k == "S" else 0
            lens.append(lv)
            sg._symx_len = lv
            sg._symx_idx = i
        segs.append(sg)
    orig_len, orig_point = S.Line.length, S.Line.point

    def stub_length(self, error=None, min_depth=None):
        return self._symx_len

    def stub_point(self, position):
        return S.Point(self._symx_idx, position)
    S.Line.length = stub_length
    S.Line.point = stub_point
    try:
        p = S.Path(*segs)
        total = p.length()
        want = 0
        for v in lens:
            want = want + v
        ctx.claim("path length is the sum of its segments' lengths, moves contribute nothing", ctx.eq(total, want))
        t = ctx.real("t", 0, 1)
        ctx.assume(ctx.and_(ctx.xgt(t, 0), ctx.xlt(t, 1)))
        if not any(k == "S" for k in kinds):
            q = p.point(t)      # all lengths zero: must not fail
            ctx.claim("all-zero path: point(t) is some segment's point", q is not None)
            return
        ctx.assume(ctx.xgt(want, 0))
        q = p.point(t)          # ZeroDivisionError here would be reported as an escaping exception
        idx = q.x
        frac = q.y
        ok = isinstance(idx, int) and not ctx.is_symbolic(idx)
        ctx.claim("point(t) evaluates one segment", ok)
        if ok:
            before = 0
            for j in range(idx):
                before = before + lens[j]
            ctx.claim("point(t) lies on the segment whose cumulative-length interval contains t", ctx.and_(ctx.le(before, t * want), ctx.le(t * want, before + lens[idx])))
            ctx.claim("local position is the fraction of that segment", ctx.close(frac * lens[idx], t * want - before, 0, 1e-9))
            ctx.claim("local position within [0,1]", ctx.and_(ctx.ge(frac, 0), ctx.le(frac, 1)))
        p0, p1 = p.point(0), p.point(1)
        first = [i for i, k in enumerate(kinds)][0]
        ctx.claim("point(0) is the first point", kinds[0] == "M" or (p0.x == 0 and p0.y == 0))
        last = len(kinds) - 1
        ctx.claim("point(1) is the last point", kinds[-1] == "M" or (p1.x == last and p1.y == 1))
    finally:
        S.Line.length = orig_len
        S.Line.point = orig_point


def h_real_path(ctx):
    """real lengths: M L L Z with symbolic coordinates"""
    S = ctx.S
    pts = [(ctx.real("x%d" % i, -V, V), ctx.real("y%d" % i, -V, V)) for i in range(3)]
    p = S.Path(S.Move(None, pts[0]), S.Line(pts[0], pts[1]), S.Line(pts[1], pts[2]), S.Close(pts[2], pts[0]))
    total = p.length()
    parts = [p[1].length(), p[2].length(), p[3].length()]
    ctx.claim("M L L Z: length is the sum of the three sides", ctx.eq(total, parts[0] + parts[1] + parts[2]))
    q = copy(p)
    q.reverse()
    ctx.claim("length unchanged by reversal", ctx.eq(q.length(), total))
    p0 = p.point(0)
    p1 = p.point(1)
    ctx.claim("point(0)/point(1) are the first and last point", ctx.and_(ctx.eq(p0.x, pts[0][0]), ctx.eq(p0.y, pts[0][1]), ctx.eq(p1.x, pts[0][0]), ctx.eq(p1.y, pts[0][1])))


def h_reverse_cache(ctx, view):
    """point(t) after the path (or its subpath view) was reversed: the walk follows the new order, whatever was cached before"""
    S = ctx.S
    a, b = ctx.real("a", 0.001, V), ctx.real("b", 0.001, V)
    p = S.Path(S.Move(None, (0, 0)), S.Line((0, 0), (a, 0)), S.Line((a, 0), (a, b)))
    t = ctx.real("t", 0, 1)
    s = ctx.real("s", 0, 1)
    ctx.assume(ctx.and_(ctx.xgt(t, 0), ctx.xlt(t, 1), ctx.xgt(s, 0), ctx.xlt(s, 1)))
    q0 = p.point(t)       # fills the cumulative-length cache
    along = t * (a + b)
    ctx.claim("before reversal: point(t) at t * length along M L L", ctx.and_(ctx.implies(ctx.lt(along, a), ctx.and_(ctx.eq(q0.x, along), ctx.eq(q0.y, 0))),
                                                                          ctx.implies(ctx.gt(along, a), ctx.and_(ctx.eq(q0.x, a), ctx.eq(q0.y, along - a)))))
    if view:
        p.subpath(0).reverse()
    else:
        p.reverse()
    ctx.claim("length unchanged by reversal", ctx.eq(p.length(), a + b))
    q = p.point(s)
    d = s * (a + b)
    ctx.claim("after reversal: point(s) at s * length along the reversed path",
              ctx.and_(ctx.implies(ctx.lt(d, b), ctx.and_(ctx.eq(q.x, a), ctx.eq(q.y, b - d))),
                       ctx.implies(ctx.gt(d, b), ctx.and_(ctx.eq(q.x, a - (d - b)), ctx.eq(q.y, 0)))))


def h_arc_circle(ctx, coincident):
    S = ctx.S
    cx, cy = ctx.reals("cx cy", -V, V)
    r = ctx.real("r", 0.01, 1000)
    rho = ctx.real("rho", -7, 7)
    sw = ctx.real("sw", -20, 20)
    ctx.assume(ctx.xne(sw, 0))
    co, si = ctx.cos(rho), ctx.sin(rho)
    prx = (cx + r * co, cy + r * si)
    pry = (cx - r * si, cy + r * co)
    if coincident:
        start = end = prx          # a whole number of turns: end point coincides with the start point, the extent does not vanish
    else:
        t0, t1 = ctx.real("t0", -7, 7), ctx.real("t1", -7, 7)
        start = (cx + r * ctx.cos(t0), cy + r * ctx.sin(t0))
        end = (cx + r * ctx.cos(t1), cy + r * ctx.sin(t1))
    arc = S.Arc(S.Point(*start), S.Point(*end), S.Point(cx, cy), S.Point(*prx), S.Point(*pry), sw)
    ln = arc.length()
    ctx.claim("circular arc length = r |sweep|", ctx.eq(ln, r * ctx.absval(sw)))
    k = ctx.real("k", 0.1, 10)
    ctx.claim("circular arc length scales with the radius", ctx.eq((arc * S.Matrix(k, 0, 0, k, 0, 0)).length(), k * r * ctx.absval(sw)))


def h_quad_degenerate(ctx, general_dir):
    """collinear control points: control = start + lam*dir, end = start + mu*dir"""
    S = ctx.S
    sx, sy = ctx.reals("sx sy", -V, V)
    lam, mu = ctx.real("lam", -100, 100), ctx.real("mu", -100, 100)
    if general_dir:
        dx, dy = 3, 4      # |dir| = 5 exactly (keeps the closed form rational)
        dl = 5
    else:
        dx, dy, dl = 1, 0, 1
    c = (sx + lam * dx, sy + lam * dy)
    e = (sx + mu * dx, sy + mu * dy)
    q = S.QuadraticBezier((sx, sy), c, e)
    ln = q.length()      # non-degenerate cases end in log() -> outside the encoding (path inconclusive)
    # oracle
    den = 2 * lam - mu
    turning = False
    if den != 0:
        ts = lam / den
        if 0 < ts < 1:
            turning = True
    if turning:
        fstar = lam * lam / den
        want = (ctx.absval(fstar) + ctx.absval(fstar - mu)) * dl
    else:
        want = ctx.absval(mu) * dl
    ctx.claim("collinear quadratic: length of the (possibly doubled-back) segment", ctx.close(ln, want, 1e-9, 1e-9))
    r = copy(q)
    r.reverse()
    l2 = r.length()
    ctx.claim("collinear quadratic: length invariant under reversal", ctx.close(l2, want, 1e-9, 1e-9))


def h_twin(ctx):
    S = ctx.S
    x1, y1, x2, y2 = ctx.reals("x1 y1 x2 y2", -V, V)
    ln = S.Line((x1, y1), (x2, y2)).length()
    ctx.claim("twin", ctx.eq(ln, ctx.absval(x2 - x1) + ctx.absval(y2 - y1)))    # WRONG: Manhattan distance


def harnesses(tier):
    hs = []
    for view in (False, True):
        hs.append({"name": "reverse_cache/view=%s" % view, "fn": "h_reverse_cache", "params": {"view": view}})
    for k in ("Line", "Close"):
        for w in ("rotate", "reflect", "scale", "reverse"):
            hs.append({"name": "linear/%s/%s" % (k, w), "fn": "h_linear", "params": {"kind": k, "what": w}})
    import itertools
    n = 6 if tier == "thorough" else 5
    seen = set()
    for L in range(1, n + 1):
        for ks in itertools.product("MSZ", repeat=L):
            s = "".join(ks)
            if L > 3 and (s.count("M") > 2 or s.count("Z") > 2):
                continue
            if L == 5 and tier != "thorough" and sum(map(ord, s)) % 3 != 0:
                continue
            hs.append({"name": "cumulative/%s" % s, "fn": "h_cumulative", "params": {"kinds": s}, "no_dual": True})
    hs.append({"name": "real_path", "fn": "h_real_path"})
    for c in (False, True):
        hs.append({"name": "arc_circle/coincident=%s" % c, "fn": "h_arc_circle", "params": {"coincident": c}, "claim_timeout_ms": 30000})
    for g in (False, True):
        hs.append({"name": "quad_degenerate/general_dir=%s" % g, "fn": "h_quad_degenerate", "params": {"general_dir": g}, "claim_timeout_ms": 30000, "weight": 5})
    hs.append({"name": "twin/manhattan", "fn": "h_twin", "twin": True})
    return hs
