"""C06 -- basic shapes are interchangeable with their SVG 2 equivalent paths."""
from copy import copy
from fractions import Fraction

ID = "C06"
TOL = (1e-6, 1e-6)
BOUNDS = {
    "quick": "Rect radii decision table: rx/ry each in {omitted, zero, number, over-large number, percentage, negative} x construction route {positional, keywords, attribute dict} "
             "with all numbers symbolic; decomposition of sharp and rounded rect, circle, ellipse, line, polyline, polygon (<=4 points incl. repeated) against the SVG 2 "
             "chapter 10 equivalent path (start point, direction, order; arcs by centre, conjugate radii, quarter sweep); shape = Path(shape) = Path(shape.d()) with equal "
             "bounding boxes and lengths for the straight shapes, transformed by a symbolic matrix and untransformed; rounded rect and round shapes under axis-aligned "
             "scales incl. reify; zero dimension / empty point list give no segments",
    "thorough": "point lists up to 6 points and every pair of radius cases",
}
OUTSIDE = ["round shapes under non-similarity transforms (known finding of C02)", "Path(shape.d()) equality and bbox()/length() for curved shapes (needs the F.6 conversion / arc bbox / elliptic length: C05, C08, C15)",
           "number formatting"]
STUBS = []
ASSUMPTIONS = ["oracle: SVG 2 10.2-10.7 equivalent paths and the rx/ry auto/clamp rules"]
V = 1000
TAU = 6.283185307179586


def app(m, p):
    return (m[0] * p[0] + m[2] * p[1] + m[4], m[1] * p[0] + m[3] * p[1] + m[5])


def peq(ctx, P, q):
    return ctx.and_(ctx.eq(P.x, q[0]), ctx.eq(P.y, q[1]))


def o_radii(ctx, w, h, rx, ry):
    """SVG 2 10.2: auto completion then clamping. rx/ry: None (auto) or a number (already absolute)."""
    if rx is None and ry is None:
        return 0, 0
    if rx is None:
        rx = ry
    elif ry is None:
        ry = rx
    if ctx.mode != "sym":
        pass
    if rx == 0 or ry == 0:
        return 0, 0
    rx = rx if rx < w / 2 else w / 2
    ry = ry if ry < h / 2 else h / 2
    return rx, ry


def radius_case(ctx, name, case, ref):
    """-> (argument for the constructor, absolute value or None)"""
    if case == "omit":
        return None, None
    if case == "zero":
        return 0, 0
    if case == "num":
        v = ctx.real(name, 0.001, 100)
        return v, v
    if case == "big":
        v = ctx.real(name, 100, 5000)
        return v, v
    if case == "pct":
        v = ctx.real(name, 0.1, 200)
        return "%s%%" % v, v * ref / 100
    raise KeyError(case)


def mk_rect(S, route, x, y, w, h, rxa, rya):
    if route == "pos":
        if rxa is None and rya is None:
            return S.Rect(x, y, w, h)
        if rya is None:
            return S.Rect(x, y, w, h, rxa)
        return S.Rect(x, y, w, h, rxa, rya)
    if route == "kw":
        kw = {}
        if rxa is not None:
            kw["rx"] = rxa
        if rya is not None:
            kw["ry"] = rya
        return S.Rect(x=x, y=y, width=w, height=h, **kw)
    d = {"x": "%s" % x, "y": "%s" % y, "width": "%s" % w, "height": "%s" % h}
    if rxa is not None:
        d["rx"] = "%s" % rxa
    if rya is not None:
        d["ry"] = "%s" % rya
    return S.Rect(d)


def h_rect_radii(ctx, cx, cy, route):
    S = ctx.S
    x, y = ctx.real("x", -V, V), ctx.real("y", -V, V)
    w, h = ctx.real("w", 1, 200), ctx.real("h", 1, 200)
    if route == "pos" and cx == "omit" and cy != "omit":
        ctx.note("positional form cannot omit rx only")
        return
    rxa, rxv = radius_case(ctx, "rx", cx, w)
    rya, ryv = radius_case(ctx, "ry", cy, h)
    r = mk_rect(S, route, x, y, w, h, rxa, rya)
    orx, ory = o_radii(ctx, w, h, rxv, ryv)
    ctx.claim("rect radii auto/clamp [%s,%s]" % (cx, cy), ctx.and_(ctx.eq(r.rx, orx), ctx.eq(r.ry, ory)))
    check_rect_path(ctx, S, r, x, y, w, h, orx, ory, "radii")


def check_rect_path(ctx, S, r, x, y, w, h, rx, ry, tag, m=None, transformed=False):
    segs = list(r.segments(transformed=transformed))
    I = (1, 0, 0, 1, 0, 0)
    m = m or I
    sharp = not ctx.is_symbolic(rx) and rx == 0
    if ctx.is_symbolic(rx) or ctx.is_symbolic(ry):
        # on this path the oracle radii are non-zero numbers (zero cases return literal 0 above)
        sharp = False
    if sharp:
        want = ["Move", "Line", "Line", "Line", "Close"]
        ok = [type(s).__name__ for s in segs] == want
        ctx.claim(tag + " sharp rect segment kinds", ok, lambda: str([type(s).__name__ for s in segs]))
        if ok:
            P = [(x, y), (x + w, y), (x + w, y + h), (x, y + h)]
            ctx.claim(tag + " sharp rect points/order", ctx.and_(peq(ctx, segs[0].end, app(m, P[0])), peq(ctx, segs[1].end, app(m, P[1])), peq(ctx, segs[2].end, app(m, P[2])),
                                                                 peq(ctx, segs[3].end, app(m, P[3])), peq(ctx, segs[4].end, app(m, P[0])), peq(ctx, segs[1].start, app(m, P[0]))))
        return
    want = ["Move", "Line", "Arc", "Line", "Arc", "Line", "Arc", "Line", "Arc", "Close"]
    ok = [type(s).__name__ for s in segs] == want
    ctx.claim(tag + " rounded rect segment kinds", ok, lambda: str([type(s).__name__ for s in segs]))
    if not ok:
        return
    ends = [(x + rx, y), (x + w - rx, y), (x + w, y + ry), (x + w, y + h - ry), (x + w - rx, y + h), (x + rx, y + h), (x, y + h - ry), (x, y + ry), (x + rx, y), (x + rx, y)]
    ctx.claim(tag + " rounded rect end points in order", ctx.and_(*[peq(ctx, s.end, app(m, e)) for s, e in zip(segs, ends)]))
    ctx.claim(tag + " rounded rect connected", ctx.and_(*[peq(ctx, segs[i].start, (segs[i - 1].end.x, segs[i - 1].end.y)) for i in range(1, 10)]))
    centers = [(x + w - rx, y + ry), (x + w - rx, y + h - ry), (x + rx, y + h - ry), (x + rx, y + ry)]
    arcs = [segs[2], segs[4], segs[6], segs[8]]
    if m == I:
        conds = []
        for a, c in zip(arcs, centers):
            conds.append(peq(ctx, a.center, c))
            conds.append(ctx.eq(a.sweep, TAU / 4))
            # conjugate radii: axis aligned with lengths rx, ry
            conds.append(ctx.and_(ctx.eq((a.prx.x - a.center.x) * (a.prx.x - a.center.x), rx * rx), ctx.eq(a.prx.y, a.center.y),
                                  ctx.eq((a.pry.y - a.center.y) * (a.pry.y - a.center.y), ry * ry), ctx.eq(a.pry.x, a.center.x)))
        ctx.claim(tag + " corner arcs: centre, quarter sweep in the positive direction, axis-aligned radii rx, ry", ctx.and_(*conds))
    else:
        ctx.claim(tag + " corner arc centres (transformed)", ctx.and_(*[peq(ctx, a.center, app(m, c)) for a, c in zip(arcs, centers)]))


def h_rect_transformed(ctx, mclass, rounded):
    S = ctx.S
    x, y = ctx.real("x", -V, V), ctx.real("y", -V, V)
    w, h = ctx.real("w", 10, 200), ctx.real("h", 10, 200)
    if rounded:
        rx, ry = ctx.real("rx", 0.01, 4), ctx.real("ry", 0.01, 4)
        r = S.Rect(x, y, w, h, rx, ry)
    else:
        rx = ry = 0
        r = S.Rect(x, y, w, h)
    sx, sy = ctx.real("sx", 0.1, 10), ctx.real("sy", 0.1, 10)
    e, f = ctx.real("e", -V, V), ctx.real("f", -V, V)
    if mclass == "scale":
        m = (sx, 0, 0, sy, e, f)
    elif mclass == "uniform":
        m = (sx, 0, 0, sx, e, f)
        sy = sx
    else:
        m = (0 - sx, 0, 0, 0 - sy, e, f)
    M = S.Matrix(*m)
    img = r * M
    check_rect_path(ctx, S, img, x, y, w, h, rx, ry, "rect*M", m, transformed=True)
    a = abs(img)
    if mclass in ("scale", "uniform"):
        ctx.claim("reified rect attributes", ctx.and_(ctx.eq(a.x, sx * x + e), ctx.eq(a.y, sy * y + f), ctx.eq(a.width, sx * w), ctx.eq(a.height, sy * h),
                                                      ctx.eq(a.rx, sx * rx), ctx.eq(a.ry, sy * ry)))
        ctx.claim("reified rect has no transform left", a.transform.is_identity())
    check_rect_path(ctx, S, a, x, y, w, h, rx, ry, "abs(rect*M)", m, transformed=True)
    ctx.claim("operand untouched", ctx.and_(ctx.eq(r.x, x), ctx.eq(r.rx, rx), r.transform.is_identity()))


def h_round(ctx, kind, route):
    S = ctx.S
    cx, cy = ctx.real("cx", -V, V), ctx.real("cy", -V, V)
    rx = ctx.real("rx", 0.01, 500)
    ry = rx if kind == "circle" else ctx.real("ry", 0.01, 500)
    if kind == "circle":
        sh = {"pos": lambda: S.Circle(cx, cy, rx), "kw": lambda: S.Circle(cx=cx, cy=cy, r=rx), "dict": lambda: S.Circle({"cx": "%s" % cx, "cy": "%s" % cy, "r": "%s" % rx}),
              "center": lambda: S.Circle(center=(cx, cy), r=rx)}[route]()
    else:
        sh = {"pos": lambda: S.Ellipse(cx, cy, rx, ry), "kw": lambda: S.Ellipse(cx=cx, cy=cy, rx=rx, ry=ry),
              "dict": lambda: S.Ellipse({"cx": "%s" % cx, "cy": "%s" % cy, "rx": "%s" % rx, "ry": "%s" % ry}), "center": lambda: S.Ellipse(center=(cx, cy), rx=rx, ry=ry)}[route]()
    segs = list(sh.segments())
    want = ["Move", "Arc", "Arc", "Arc", "Arc", "Close"]
    ok = [type(s).__name__ for s in segs] == want
    ctx.claim("%s segment kinds" % kind, ok, lambda: str([type(s).__name__ for s in segs]))
    if not ok:
        return
    quad = [(cx + rx, cy), (cx, cy + ry), (cx - rx, cy), (cx, cy - ry), (cx + rx, cy), (cx + rx, cy)]
    ctx.claim("%s starts at (cx+rx, cy) and visits the quadrant points in the positive direction" % kind, ctx.and_(*[peq(ctx, s.end, q) for s, q in zip(segs, quad)]))
    conds = []
    for a in segs[1:5]:
        conds.append(peq(ctx, a.center, (cx, cy)))
        conds.append(ctx.eq(a.sweep, TAU / 4))
        conds.append(ctx.and_(ctx.eq(a.prx.x, cx + rx), ctx.eq(a.prx.y, cy), ctx.eq(a.pry.x, cx), ctx.eq(a.pry.y, cy + ry)))
    ctx.claim("%s arcs: centre, quarter sweeps, conjugate radii (rx,0),(0,ry)" % kind, ctx.and_(*conds))
    tau = ctx.real("tau", -7, 7)
    p = segs[1].point_at_t(tau)
    ctx.claim("%s arc points satisfy the ellipse equation" % kind, ctx.eq((p.x - cx) * (p.x - cx) * ry * ry + (p.y - cy) * (p.y - cy) * rx * rx, rx * rx * ry * ry))
    pp = S.Path(sh)
    ctx.claim("Path(%s) has the same segments" % kind, len(pp) == 6 and ctx.and_(*[peq(ctx, a.end, (b.end.x, b.end.y)) for a, b in zip(pp, segs)]))


def h_straight(ctx, kind, npts, mclass, repeated=False):
    """line / polyline / polygon: decomposition, equality with Path(shape) and Path(shape.d()), bbox, length"""
    S = ctx.S
    pts = [(ctx.real("p%dx" % i, -V, V), ctx.real("p%dy" % i, -V, V)) for i in range(npts)]
    if repeated and npts >= 2:
        pts[1] = pts[0]
    if kind == "line":
        sh = S.SimpleLine(pts[0][0], pts[0][1], pts[1][0], pts[1][1])
    elif kind == "polyline":
        sh = S.Polyline(*pts)
    elif kind == "polygon":
        sh = S.Polygon(*pts)
    else:
        x, y, w, h = pts[0][0], pts[0][1], ctx.real("w", 0.01, V), ctx.real("h", 0.01, V)
        sh = S.Rect(x, y, w, h)
        pts = [(x, y), (x + w, y), (x + w, y + h), (x, y + h)]
    m = (1, 0, 0, 1, 0, 0)
    if mclass == "general":
        mv = ctx.reals("ma mb mc md me mf", -10, 10)
        m = tuple(mv)
        sh = sh * S.Matrix(*mv)
    closed = kind in ("polygon", "rect")
    segs = list(sh.segments())
    if npts == 0:
        ctx.claim("%s without points has no segments" % kind, len(segs) == 0)
        ctx.claim("%s without points: empty path" % kind, len(S.Path(sh)) == 0)
        return
    want = ["Move"] + ["Line"] * (len(pts) - 1) + (["Close"] if closed else [])
    ok = [type(s).__name__ for s in segs] == want
    ctx.claim("%s segment kinds" % kind, ok, lambda: str([type(s).__name__ for s in segs]))
    if not ok:
        return
    ends = [app(m, p) for p in pts] + ([app(m, pts[0])] if closed else [])
    ctx.claim("%s points in order" % kind, ctx.and_(*[peq(ctx, s.end, e) for s, e in zip(segs, ends)]))
    # interchangeable forms
    p1 = S.Path(sh)
    ctx.claim("%s == Path(shape)" % kind, bool(sh == p1) and bool(p1 == sh))
    p2 = S.Path(sh.d())
    a2 = list(p2)
    ctx.claim("Path(%s.d()) segments" % kind, len(a2) == len(segs) and ctx.and_(*[peq(ctx, s.end, e) for s, e in zip(a2, ends)]))
    if mclass == "identity":
        # (under a transform the shape's effective stroke width differs from that of the bare path data, and == includes it)
        ctx.claim("%s == Path(shape.d())" % kind, bool(sh == p2))
    pu = S.Path(sh.d(transformed=False))
    ends_u = [p for p in pts] + ([pts[0]] if closed else [])
    ctx.claim("Path(%s.d(transformed=False)) is the untransformed shape" % kind, len(pu) == len(segs) and ctx.and_(*[peq(ctx, s.end, e) for s, e in zip(pu, ends_u)]))
    if len(pts) > 3 or (mclass == "general" and len(pts) > 2):
        return     # the min/max orderings of more vertices only multiply paths; boxes are C08's subject
    bb, b1 = sh.bbox(), p1.bbox()
    ctx.claim("%s bbox = Path(shape) bbox" % kind, ctx.and_(*[ctx.eq(u, v) for u, v in zip(bb, b1)]))
    xs = [e[0] for e in ends]
    ys = [e[1] for e in ends]
    ctx.claim("%s bbox contains all vertices" % kind, ctx.and_(*([ctx.le(bb[0], v) for v in xs] + [ctx.ge(bb[2], v) for v in xs] + [ctx.le(bb[1], v) for v in ys] + [ctx.ge(bb[3], v) for v in ys])))
    ctx.claim("%s length = Path(shape) length" % kind, ctx.eq(sh.length(), p1.length()))


def h_degenerate(ctx, kind):
    S = ctx.S
    x, y = ctx.real("x", -V, V), ctx.real("y", -V, V)
    w = ctx.real("w", 0.01, V)
    if kind == "rect_w0":
        sh = S.Rect(x, y, 0, w)
    elif kind == "rect_h0":
        sh = S.Rect(x, y, w, 0)
    elif kind == "circle_r0":
        sh = S.Circle(x, y, 0)
    elif kind == "ellipse_rx0":
        sh = S.Ellipse(x, y, 0, w)
    elif kind == "ellipse_ry0":
        sh = S.Ellipse(x, y, w, 0)
    elif kind == "polyline_empty":
        sh = S.Polyline()
    else:
        sh = S.Polygon()
    ctx.claim("%s: no segments" % kind, len(list(sh.segments())) == 0)
    ctx.claim("%s: Path(shape) empty" % kind, len(S.Path(sh)) == 0)
    ctx.claim("%s: d() empty" % kind, sh.d() == "")


def h_twin(ctx):
    S = ctx.S
    cx, cy, r = ctx.real("cx", -V, V), ctx.real("cy", -V, V), ctx.real("r", 0.01, 100)
    segs = list(S.Circle(cx, cy, r).segments())
    ctx.claim("twin", peq(ctx, segs[1].end, (cx, cy - r)))   # WRONG: clockwise


def harnesses(tier):
    hs = []
    cases = ["omit", "zero", "num", "big", "pct"]
    for a in cases:
        for b in cases:
            for route in ("pos", "kw", "dict"):
                hs.append({"name": "rect_radii/%s/%s/%s" % (a, b, route), "fn": "h_rect_radii", "params": {"cx": a, "cy": b, "route": route}})
    for mc in ("scale", "uniform", "neg"):
        for rounded in (False, True):
            hs.append({"name": "rect_transformed/%s/rounded=%s" % (mc, rounded), "fn": "h_rect_transformed", "params": {"mclass": mc, "rounded": rounded}, "weight": 4})
    for kind in ("circle", "ellipse"):
        for route in ("pos", "kw", "dict", "center"):
            hs.append({"name": "round/%s/%s" % (kind, route), "fn": "h_round", "params": {"kind": kind, "route": route}})
    npts = {"line": [2], "polyline": [1, 2, 3, 4], "polygon": [1, 2, 3, 4], "rect": [1]}
    if tier == "thorough":
        npts["polyline"] += [5, 6]
        npts["polygon"] += [5, 6]
    for kind, ns in npts.items():
        for n in ns:
            for mc in ("identity", "general"):
                hs.append({"name": "straight/%s/%d/%s" % (kind, n, mc), "fn": "h_straight", "params": {"kind": kind, "npts": n, "mclass": mc}, "weight": n})
            if n >= 2 and kind != "rect":
                hs.append({"name": "straight/%s/%d/repeated" % (kind, n), "fn": "h_straight", "params": {"kind": kind, "npts": n, "mclass": "identity", "repeated": True}})
    for k in ("rect_w0", "rect_h0", "circle_r0", "ellipse_rx0", "ellipse_ry0", "polyline_empty", "polygon_empty"):
        hs.append({"name": "degenerate/%s" % k, "fn": "h_degenerate", "params": {"kind": k}})
    hs.append({"name": "twin/clockwise", "fn": "h_twin", "twin": True})
    return hs
