"""C09 -- path-data parsing is total: any string returns or raises ValueError only."""
from . import pathgen as G

ID = "C09"
TOL = (1e-6, 1e-9)
BOUNDS = {
    "quick": "(a) ALL strings of length <= 4 over the whole Unicode range (every character symbolic; partitioned by the class of the first character); "
             "(b) for each of the 20 command letters a valid template 'M1,2 <cmd> <args>' (and the same without the leading move) with one position replaced by, "
             "or preceded by, a fully symbolic character, at every position, and truncated after every position",
    "thorough": "(a) length <= 5; (b) two symbolic characters per template (all position pairs at distance <= 2)",
}
OUTSIDE = ["strings longer than the bound outside the template families", "wall-clock promptness (termination is checked by a decision budget per path)",
           "post-parse operations (d, d(relative), bbox, length, transform+reify) are executed on one concrete witness per explored path (concolic), not for all values of the path",
           "IEEE underflow in arc radii (e.g. 1e-200)"]
STUBS = []
ASSUMPTIONS = ["CPython float()/int() accept exactly: optional whitespace, sign, ASCII digits with optional dot, optional exponent (inf/nan/underscore/non-ASCII digits end the path as unsupported)"]

CLASSES = {
    "ws": " \t\n\x0c\r,",
    "digit": "0123456789",
    "punct": "+-.",
    "expo": "eE",
}


def _numeric(x):
    return x is not None and isinstance(x, (int, float))


def structural(ctx, S, p):
    ok = True
    for i, s in enumerate(p):
        pts = []
        if isinstance(s, S.Move):
            pts = [s.end]
        elif isinstance(s, (S.Line, S.Close)):
            pts = [s.end] + ([s.start] if i > 0 else [])
        elif isinstance(s, S.QuadraticBezier):
            pts = [s.start, s.control, s.end]
        elif isinstance(s, S.CubicBezier):
            pts = [s.start, s.control1, s.control2, s.end]
        elif isinstance(s, S.Arc):
            pts = [s.start, s.end, s.center, s.prx, s.pry]
            if not _numeric(s.sweep):
                ok = False
        for q in pts:
            if q is None or not _numeric(q.x) or not _numeric(q.y):
                ok = False
    return ok


def battery(S, p):
    """serialise, transform, measure and bound the result: must never fail"""
    p.d()
    p.d(relative=True)
    p.d(relative=False, smooth=True)
    str(p)
    bb = p.bbox()
    if bb is not None:
        assert bb[0] <= bb[2] or True
    q = p * S.Matrix(2, 0.5, -1, 3, 10, 20)
    q.reify()
    abs(p * "rotate(30)")
    p.length(error=1e-3, min_depth=2)
    list(p.as_subpaths())
    S.Path(p)
    p == p


def parse_outcome(S, text):
    p = S.Path()
    try:
        p.parse(text)
        return p, "return"
    except ValueError:
        return p, "ValueError"


def h_free(ctx, alphabets, exclude_first=None):
    S = ctx.S
    text = ctx.chars("s", alphabets)
    if exclude_first:
        o = ctx.ordinals(text)[0]
        ctx.assume(ctx.and_(*[ctx.xne(o, ord(c)) for c in exclude_first]))
    p, outcome = parse_outcome(S, text)       # any other exception type escapes -> violation candidate
    kinds = "".join({"Move": "M", "Line": "L", "Close": "Z", "QuadraticBezier": "Q", "CubicBezier": "C", "Arc": "A"}[type(x).__name__] for x in p)[:6]
    ok = structural(ctx, S, p)
    ctx.claim("structure" if ok else "structure[%s]" % kinds, ok)

    def post(c):
        t = c.chars("s", alphabets)
        q, _ = parse_outcome(c.S, t)
        battery(c.S, q)
    ctx.on_witness("post[%s]" % kinds, post)


def h_template(ctx, base, pos, mode):
    """base: valid path data; mode 'replace': character at pos is symbolic; 'insert': a symbolic character before pos;
    'truncate': cut after pos and replace the last kept character by a symbolic one"""
    S = ctx.S
    ctx.option("concretize_digits", True)   # values of corrupted numerals are enumerated digit by digit (keeps arc arithmetic concrete)
    if mode == "replace":
        alph = [c for c in base]
        alph[pos] = None
    elif mode == "insert":
        alph = [c for c in base[:pos]] + [None] + [c for c in base[pos:]]
    else:
        alph = [c for c in base[:pos]] + [None]
    h_free(ctx, alph)


def h_template2(ctx, base, pos1, pos2):
    ctx.option("concretize_digits", True)
    alph = [c for c in base]
    alph[pos1] = None
    alph[pos2] = None
    h_free(ctx, alph)


def h_twin(ctx):
    """wrong claim: parsing never raises ValueError"""
    S = ctx.S
    text = ctx.chars("s", ["M", None, None])
    p = S.Path()
    try:
        p.parse(text)
        ok = True
    except ValueError:
        ok = False
    ctx.claim("twin", ok)


TEMPLATES = {
    "M": "M1,2 3,4", "m": "m1,2 3,4", "Z": "M1,2 3,4Z", "z": "M1,2 3,4z", "L": "M1,2L3,4", "l": "M1,2l3,4", "H": "M1,2H3", "h": "M1,2h3",
    "V": "M1,2V3", "v": "M1,2v3", "C": "M1,2C3,4 5,6 7,8", "c": "M1,2c3,4 5,6 7,8", "S": "M1,2S3,4 5,6", "s": "M1,2s3,4 5,6",
    "Q": "M1,2Q3,4 5,6", "q": "M1,2q3,4 5,6", "T": "M1,2T3,4", "t": "M1,2t3,4", "A": "M1,2A3,4 5 0 1 6,7", "a": "M1,2a3,4 5 0 1 6,7",
}


def harnesses(tier):
    hs = []
    L = 5 if tier == "thorough" else 4
    firsts = [(l, l) for l in G.LETTERS] + [(k, v) for k, v in CLASSES.items()]
    for n in range(1, L + 1):
        for nm, first in firsts:
            hs.append({"name": "free/L%d/%s" % (n, nm), "fn": "h_free", "params": {"alphabets": [first] + [None] * (n - 1)}, "weight": n * n,
                       "max_decisions": 20000})
        # first character anything else
        other = "".join(sorted(set(G.LETTERS) | set("".join(CLASSES.values()))))
        hs.append({"name": "free/L%d/other" % n, "fn": "h_free", "params": {"alphabets": [None] * n, "exclude_first": other}, "weight": 1})
    for letter, base in TEMPLATES.items():
        variants = [base]
        if letter not in "Mm":
            variants.append(base[4:])     # without the leading move
        for vi, b in enumerate(variants):
            for pos in range(len(b)):
                hs.append({"name": "tmpl/%s%d/replace/%d" % (letter, vi, pos), "fn": "h_template", "params": {"base": b, "pos": pos, "mode": "replace"}})
                hs.append({"name": "tmpl/%s%d/insert/%d" % (letter, vi, pos), "fn": "h_template", "params": {"base": b, "pos": pos, "mode": "insert"}})
                hs.append({"name": "tmpl/%s%d/truncate/%d" % (letter, vi, pos), "fn": "h_template", "params": {"base": b, "pos": pos, "mode": "truncate"}})
            hs.append({"name": "tmpl/%s%d/insert/%d" % (letter, vi, len(b)), "fn": "h_template", "params": {"base": b, "pos": len(b), "mode": "insert"}})
            if tier == "thorough":
                for p1 in range(len(b)):
                    for p2 in range(p1 + 1, min(len(b), p1 + 3)):
                        hs.append({"name": "tmpl2/%s%d/%d-%d" % (letter, vi, p1, p2), "fn": "h_template2", "params": {"base": b, "pos1": p1, "pos2": p2}})
    hs.append({"name": "twin/never_raises", "fn": "h_twin", "twin": True})
    return hs
