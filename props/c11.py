"""C11 -- viewport transform equals the SVG 2 section 8.2 'equivalent transform'."""
import io
from fractions import Fraction

ID = "C11"
TOL = (1e-6, 1e-7)
ALIGNS = ["none", "xMinYMin", "xMidYMin", "xMaxYMin", "xMinYMid", "xMidYMid", "xMaxYMid", "xMinYMax", "xMidYMax", "xMaxYMax"]
MOS = [None, "meet", "slice"]
BOUNDS = {
    "quick": "exhaustive over 10 align values x {absent, meet, slice} + preserveAspectRatio absent; element x,y,width,height, viewBox x,y,w,h, ppi, "
             "caller width/height all symbolic (sizes > 0, |values| <= 1e6); size supplied by: plain attributes, units (px,in,pt,pc), percentages of caller size, "
             "caller width/height only (both, or exactly one of them with the other falling back to the viewBox), default from viewBox; API routes: Viewbox.viewbox_transform, Viewbox(...).transform(elem), SVG.parse (root and one rect child)",
    "thorough": "as quick plus nested svg (depth 2) with its own viewBox for every align/meetOrSlice pair and mm/cm units with a 1e-6 band",
}
OUTSIDE = ["12-decimal formatting of the transform string (numbers cross the string as tags)", "IEEE rounding"]
STUBS = []
ASSUMPTIONS = ["oracle: SVG 2 section 8.2 algorithm transcribed from the specification text"]
V = 1e6


def oracle(ctx, ex, ey, ew, eh, vx, vy, vw, vh, align, mos):
    sx = ew / vw
    sy = eh / vh
    if align is None:
        align = "xMidYMid"
    if mos is None:
        mos = "meet"
    if align != "none":
        if mos == "meet":
            s = sx if sx < sy else sy
        else:
            s = sx if sx > sy else sy
        sx = sy = s
    tx = ex - vx * sx
    ty = ey - vy * sy
    if "xMid" in align:
        tx = tx + (ew - vw * sx) / 2
    if "xMax" in align:
        tx = tx + (ew - vw * sx)
    if "YMid" in align:
        ty = ty + (eh - vh * sy) / 2
    if "YMax" in align:
        ty = ty + (eh - vh * sy)
    return sx, sy, tx, ty


def par_text(align, mos):
    if align is None:
        return None
    return align if mos is None else "%s %s" % (align, mos)


def check_matrix(ctx, tag, m, o):
    sx, sy, tx, ty = o
    ctx.claim(tag + " entries", ctx.and_(ctx.eq(m.a, sx), ctx.eq(m.d, sy), ctx.eq(m.b, 0), ctx.eq(m.c, 0), ctx.eq(m.e, tx), ctx.eq(m.f, ty)))


def derived(ctx, tag, m, ex, ey, ew, eh, vx, vy, vw, vh, align, mos):
    """facts stated by the property, checked on the library's matrix directly"""
    x0 = m.a * vx + m.c * vy + m.e
    y0 = m.b * vx + m.d * vy + m.f
    x1 = m.a * (vx + vw) + m.c * (vy + vh) + m.e
    y1 = m.b * (vx + vw) + m.d * (vy + vh) + m.f
    al = align or "xMidYMid"
    ms = mos or "meet"
    if al == "none":
        ctx.claim(tag + " none: exact fit", ctx.and_(ctx.eq(x0, ex), ctx.eq(y0, ey), ctx.eq(x1, ex + ew), ctx.eq(y1, ey + eh)))
        return
    if ms == "meet":
        ctx.claim(tag + " meet: inside", ctx.and_(ctx.ge(x0, ex), ctx.ge(y0, ey), ctx.le(x1, ex + ew), ctx.le(y1, ey + eh)))
    else:
        ctx.claim(tag + " slice: covers", ctx.and_(ctx.le(x0, ex), ctx.le(y0, ey), ctx.ge(x1, ex + ew), ctx.ge(y1, ey + eh)))
    ctx.claim(tag + " touches", ctx.or_(ctx.eq(x1 - x0, ew), ctx.eq(y1 - y0, eh)))
    ctx.claim(tag + " uniform", ctx.and_(ctx.eq(m.a, m.d), ctx.gt(m.a, 0)))
    if "xMin" in al:
        ctx.claim(tag + " xMin", ctx.eq(x0, ex))
    if "xMid" in al:
        ctx.claim(tag + " xMid", ctx.eq(x0 + x1, 2 * ex + ew))
    if "xMax" in al:
        ctx.claim(tag + " xMax", ctx.eq(x1, ex + ew))
    if "YMin" in al:
        ctx.claim(tag + " YMin", ctx.eq(y0, ey))
    if "YMid" in al:
        ctx.claim(tag + " YMid", ctx.eq(y0 + y1, 2 * ey + eh))
    if "YMax" in al:
        ctx.claim(tag + " YMax", ctx.eq(y1, ey + eh))


def _inputs(ctx):
    ex, ey = ctx.reals("ex ey", -V, V)
    ew, eh = ctx.reals("ew eh", 1e-3, V)
    vx, vy = ctx.reals("vx vy", -V, V)
    vw, vh = ctx.reals("vw vh", 1e-3, V)
    return ex, ey, ew, eh, vx, vy, vw, vh


def h_static(ctx, align, mos):
    S = ctx.S
    ex, ey, ew, eh, vx, vy, vw, vh = _inputs(ctx)
    text = S.Viewbox.viewbox_transform(ex, ey, ew, eh, vx, vy, vw, vh, par_text(align, mos))
    m = S.Matrix(text)
    o = oracle(ctx, ex, ey, ew, eh, vx, vy, vw, vh, align, mos)
    check_matrix(ctx, "static", m, o)
    derived(ctx, "static", m, ex, ey, ew, eh, vx, vy, vw, vh, align, mos)


class _Elem:
    pass


def h_object(ctx, align, mos, route):
    S = ctx.S
    ex, ey, ew, eh, vx, vy, vw, vh = _inputs(ctx)
    par = par_text(align, mos)
    vbtext = "%s %s %s %s" % (vx, vy, vw, vh)
    if route == "string":
        vb = S.Viewbox(vbtext, par) if par is not None else S.Viewbox(vbtext)
    elif route == "dict":
        d = {"viewBox": vbtext}
        if par is not None:
            d["preserveAspectRatio"] = par
        vb = S.Viewbox(d)
    elif route == "numbers":
        vb = S.Viewbox(vx, vy, vw, vh)
        if par is not None:
            vb.preserve_aspect_ratio = par
    else:
        vb = S.Viewbox(S.Viewbox(vbtext, par))
    e = _Elem()
    e.x, e.y, e.width, e.height = ex, ey, ew, eh
    m = S.Matrix(vb.transform(e))
    o = oracle(ctx, ex, ey, ew, eh, vx, vy, vw, vh, align, mos)
    check_matrix(ctx, "object", m, o)


UNIT = {"": 1, "px": 1, "pt": Fraction(4, 3), "pc": 16, "in": None}


def h_parse(ctx, align, mos, supply, unit="", reify=True):
    """root <svg> with a rect child, through the real SVG.parse"""
    S = ctx.S
    ex, ey, ew, eh, vx, vy, vw, vh = _inputs(ctx)
    ppi = ctx.real("ppi", 1, 10000)
    rx, ry, rw, rh = ctx.reals("rx ry", -V, V) + ctx.reals("rw rh", 1e-3, V)
    par = par_text(align, mos)
    attrs = ['xmlns="http://www.w3.org/2000/svg"', 'viewBox="%s %s %s %s"' % (vx, vy, vw, vh)]
    if par is not None:
        attrs.append('preserveAspectRatio="%s"' % par)
    kw = {"reify": reify, "ppi": ppi}
    cw, ch = None, None
    if supply == "attr":
        # explicit sizes with a unit
        fac = UNIT[unit]
        attrs += ['x="%s%s"' % (ex, unit), 'y="%s%s"' % (ey, unit), 'width="%s%s"' % (ew, unit), 'height="%s%s"' % (eh, unit)]
        k = ppi if fac is None else ctx.num(fac)
        oex, oey, oew, oeh = ex * k, ey * k, ew * k, eh * k
    elif supply == "percent":
        cw, ch = ctx.reals("cw ch", 1e-3, V)
        kw["width"], kw["height"] = cw, ch
        attrs += ['x="%s%%"' % ex, 'y="%s%%"' % ey, 'width="%s%%"' % ew, 'height="%s%%"' % eh]
        oex, oey, oew, oeh = ex * cw / 100, ey * ch / 100, ew * cw / 100, eh * ch / 100
    elif supply == "caller":
        cw, ch = ctx.reals("cw ch", 1e-3, V)
        kw["width"], kw["height"] = cw, ch
        oex, oey, oew, oeh = 0, 0, cw, ch        # width/height default to 100% of the caller's size
    elif supply == "caller_w":
        # only the width is passed: the height falls back to the viewBox height
        cw = ctx.real("cw", 1e-3, V)
        kw["width"] = cw
        oex, oey, oew, oeh = 0, 0, cw, vh
    elif supply == "caller_h":
        ch = ctx.real("ch", 1e-3, V)
        kw["height"] = ch
        oex, oey, oew, oeh = 0, 0, vw, ch
    elif supply == "caller_len":
        cw, ch = ctx.reals("cw ch", 1e-3, V)
        kw["width"], kw["height"] = "%sin" % cw, "%spt" % ch
        oex, oey, oew, oeh = 0, 0, cw * ppi, ch * 4 / 3
    else:  # default: size falls back to the viewBox size
        oex, oey, oew, oeh = 0, 0, vw, vh
    doc = '<svg %s><rect x="%s" y="%s" width="%s" height="%s"/></svg>' % (" ".join(attrs), rx, ry, rw, rh)
    svg = S.SVG.parse(io.StringIO(doc), **kw)
    o = oracle(ctx, oex, oey, oew, oeh, vx, vy, vw, vh, align, mos)
    m = S.Matrix(svg.viewbox_transform)
    check_matrix(ctx, "parse/" + supply, m, o)
    shapes = [e for e in svg.elements() if isinstance(e, S.Shape)]
    ctx.claim("parse/%s one shape" % supply, len(shapes) == 1)
    if len(shapes) != 1:
        return
    p = abs(S.Path(shapes[0]))
    sx, sy, tx, ty = o
    c0 = (sx * rx + tx, sy * ry + ty)
    c2 = (sx * (rx + rw) + tx, sy * (ry + rh) + ty)
    ctx.claim("parse/%s rect corners" % supply,
              ctx.and_(ctx.eq(p[0].end.x, c0[0]), ctx.eq(p[0].end.y, c0[1]), ctx.eq(p[2].end.x, c2[0]), ctx.eq(p[2].end.y, c2[1])))


def h_incomplete(ctx, kind):
    S = ctx.S
    ex, ey, ew, eh, vx, vy, vw, vh = _inputs(ctx)
    rx, ry, rw, rh = ctx.reals("rx ry", -V, V) + ctx.reals("rw rh", 1e-3, V)
    if kind == "missing":
        vb = ""
    elif kind == "three":
        vb = 'viewBox="%s %s %s"' % (vx, vy, vw)
    elif kind == "one":
        vb = 'viewBox="%s"' % vx
    else:
        vb = 'viewBox=""'
    doc = '<svg xmlns="http://www.w3.org/2000/svg" width="%s" height="%s" %s><rect x="%s" y="%s" width="%s" height="%s"/></svg>' % (ew, eh, vb, rx, ry, rw, rh)
    svg = S.SVG.parse(io.StringIO(doc))
    m = S.Matrix(svg.viewbox_transform)
    ctx.claim("incomplete/%s identity" % kind, ctx.and_(ctx.eq(m.a, 1), ctx.eq(m.d, 1), ctx.eq(m.b, 0), ctx.eq(m.c, 0), ctx.eq(m.e, 0), ctx.eq(m.f, 0)))
    shapes = [e for e in svg.elements() if isinstance(e, S.Shape)]
    ctx.claim("incomplete/%s shape kept" % kind, len(shapes) == 1)
    if shapes:
        p = abs(S.Path(shapes[0]))
        ctx.claim("incomplete/%s untouched geometry" % kind, ctx.and_(ctx.eq(p[0].end.x, rx), ctx.eq(p[0].end.y, ry), ctx.eq(p[2].end.x, rx + rw), ctx.eq(p[2].end.y, ry + rh)))
    # static API: any missing component -> empty string
    t = S.Viewbox.viewbox_transform(ex, ey, ew, eh, vx, vy, vw, None, "xMidYMid meet")
    ctx.claim("incomplete static", t == "")


def h_zero(ctx, which):
    """zero-sized viewBox or element: rendering disabled, no exception"""
    S = ctx.S
    ew, eh = ctx.reals("ew eh", 0, V)
    vw, vh = ctx.reals("vw vh", 0, V)
    vx, vy = ctx.reals("vx vy", -V, V)
    if which == "vbw":
        ctx.assume(ctx.xeq(vw, 0))
    elif which == "vbh":
        ctx.assume(ctx.xeq(vh, 0))
    elif which == "ew":
        ctx.assume(ctx.xeq(ew, 0))
    elif which == "eh":
        ctx.assume(ctx.xeq(eh, 0))
    else:
        ctx.assume(ctx.or_(ctx.xeq(vw, 0), ctx.xeq(vh, 0), ctx.xeq(ew, 0), ctx.xeq(eh, 0)))
    doc = ('<svg xmlns="http://www.w3.org/2000/svg" width="%s" height="%s" viewBox="%s %s %s %s"><rect x="1" y="1" width="5" height="5"/></svg>'
           % (ew, eh, vx, vy, vw, vh))
    svg = S.SVG.parse(io.StringIO(doc))     # must not raise
    shapes = [e for e in svg.elements() if isinstance(e, S.Shape)]
    ctx.claim("zero/%s nothing rendered" % which, len(shapes) == 0)


def h_twin(ctx):
    S = ctx.S
    ex, ey, ew, eh, vx, vy, vw, vh = _inputs(ctx)
    m = S.Matrix(S.Viewbox.viewbox_transform(ex, ey, ew, eh, vx, vy, vw, vh, "xMaxYMin slice"))
    o = oracle(ctx, ex, ey, ew, eh, vx, vy, vw, vh, "xMaxYMin", "meet")   # WRONG on purpose
    check_matrix(ctx, "twin", m, o)


def harnesses(tier):
    hs = []
    combos = [(None, None)] + [(a, m) for a in ALIGNS for m in MOS]
    for a, m in combos:
        tag = "%s_%s" % (a, m)
        hs.append({"name": "static/" + tag, "fn": "h_static", "params": {"align": a, "mos": m}})
        hs.append({"name": "parse_attr/" + tag, "fn": "h_parse", "params": {"align": a, "mos": m, "supply": "attr"}})
    routes = ["string", "dict", "numbers", "copy"]
    for i, (a, m) in enumerate(combos):
        hs.append({"name": "object/%s_%s" % (a, m), "fn": "h_object", "params": {"align": a, "mos": m, "route": routes[i % 4]}})
    some = [(None, None), ("xMinYMax", "slice"), ("xMaxYMid", "meet"), ("none", None), ("xMidYMin", None)]
    full = combos if tier == "thorough" else some
    for a, m in full:
        tag = "%s_%s" % (a, m)
        for supply in ("percent", "caller", "caller_w", "caller_h", "caller_len", "default"):
            hs.append({"name": "parse_%s/%s" % (supply, tag), "fn": "h_parse", "params": {"align": a, "mos": m, "supply": supply}})
        for unit in ("px", "pt", "pc", "in"):
            hs.append({"name": "parse_unit_%s/%s" % (unit, tag), "fn": "h_parse", "params": {"align": a, "mos": m, "supply": "attr", "unit": unit}})
        hs.append({"name": "parse_noreify/" + tag, "fn": "h_parse", "params": {"align": a, "mos": m, "supply": "attr", "reify": False}})
    for k in ("missing", "three", "one", "empty"):
        hs.append({"name": "incomplete/" + k, "fn": "h_incomplete", "params": {"kind": k}})
    for w in ("vbw", "vbh", "ew", "eh", "any"):
        hs.append({"name": "zero/" + w, "fn": "h_zero", "params": {"which": w}})
    hs.append({"name": "twin/meet_slice", "fn": "h_twin", "twin": True})
    return hs
