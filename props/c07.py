"""C07 -- serialising a path to path data and re-parsing it reproduces the path."""
import itertools
from copy import copy
from . import pathgen as G

ID = "C07"
TOL = (1e-6, 1e-6)
BOUNDS = {
    "quick": "paths parsed from skeleton data (all numbers symbolic): leading M/m + every 2-command sequence over the 18 non-arc letters, smooth chains, multiple subpaths, "
             "closes, subpaths without their own move, segment-completing z; each printed with relative in {None, False, True} x smooth in {None, False, True} through "
             "Path.d, str(path) and Subpath.d and re-parsed by the real parser; arcs: native arcs with symbolic centre, radii, rotation and sweep (all four flag "
             "combinations arise as solver paths) printed absolute and relative and re-read with the argument recorder; curve / non-curve / curve chains (CMC, QMQ, CLLC, QzQ) with smooth output",
    "thorough": "every 3-command sequence",
}
OUTSIDE = ["the 12-significant-digit coordinate format and the 6-digit %G of arc radii/rotation (numbers cross the text as tags; C-level formatting cannot be encoded)",
           "that the re-read arc arguments produce the same centre/sweep (SVG F.6 conversion, C05)", "paths longer than the bound"]
STUBS = ["Arc._svg_parameterize -> recorder on the re-parse of arcs"]
ASSUMPTIONS = ["oracle: the path's own stored geometry"]


def seg_conds(ctx, S, a, b, tol=1e-9):
    if type(a) is not type(b):
        return False
    c = []

    def pe(p, q):
        if p is None or q is None:
            return (p is None) == (q is None)
        return ctx.and_(ctx.close(p.x, q.x, 0, tol), ctx.close(p.y, q.y, 0, tol))
    c.append(pe(a.end, b.end))
    if isinstance(a, S.QuadraticBezier):
        c.append(pe(a.control, b.control))
    if isinstance(a, S.CubicBezier):
        c.append(pe(a.control1, b.control1))
        c.append(pe(a.control2, b.control2))
    if not isinstance(a, S.Move):
        c.append(pe(a.start, b.start))
    return ctx.and_(*c)


def compare_paths(ctx, S, tag, p, q):
    ok = len(p) == len(q) and all(type(a) is type(b) for a, b in zip(p, q))
    ctx.claim(tag + " segment count/kinds", ok, lambda: "%s vs %s" % ([type(a).__name__ for a in p], [type(a).__name__ for a in q]))
    if ok and len(p):
        ctx.claim(tag + " geometry", ctx.and_(*[seg_conds(ctx, S, a, b) for a, b in zip(p, q)]))


def build_objects(ctx, S, abstract):
    """the path as segment objects, from the specification interpreter (independent of the library's parser);
    relative/smooth flags as the commands spell them"""
    osegs = G.Interp().run(abstract)
    flags = []
    for letter, groups in abstract:
        n = 1 if letter in "Zz" else len(groups)
        for gi in range(n):
            l = letter
            if letter in "Mm" and gi > 0:
                l = "l" if letter == "m" else "L"
            flags.append(l)
            if letter not in "Zz" and "z" in groups[gi]:
                flags.append("z")
    segs = []
    for o, l in zip(osegs, flags):
        rel = l.islower()
        k = o["kind"]
        if k == "Move":
            sg = S.Move(o["start"], o["end"], relative=rel)
        elif k == "Line":
            sg = S.Line(o["start"], o["end"], relative=rel)
        elif k == "Close":
            sg = S.Close(o["start"], o["end"], relative=rel)
        elif k == "Quad":
            sg = S.QuadraticBezier(o["start"], o["c"], o["end"], relative=rel, smooth=(l in "Tt"))
        else:
            sg = S.CubicBezier(o["start"], o["c1"], o["c2"], o["end"], relative=rel, smooth=(l in "Ss"))
        segs.append(sg)
    return S.Path(*segs)


def h_roundtrip(ctx, cmds, relative, smooth, how="d", source="parsed"):
    S = ctx.S
    pieces, abstract = G.build(ctx, [tuple(c) for c in cmds])
    if source == "objects":
        p = build_objects(ctx, S, abstract)
    else:
        p = S.Path(" ".join(pieces))
    if how == "d":
        text = p.d(relative=relative, smooth=smooth)
    elif how == "str":
        text = str(p)
    else:
        # Subpath.d(): every subpath view on its own
        for i, sp in enumerate(p.as_subpaths()):
            qs = S.Path(sp.d(relative=relative, smooth=smooth))
            want = list(S.Path(sp))
            ok = len(qs) == len(want) and all(type(a_) is type(b_) for a_, b_ in zip(qs, want))
            ctx.claim("subpath%d.d() kinds" % i, ok)
            if ok and len(want):
                first_has_start = want[0].start is not None and not isinstance(want[0], S.Move)
                conds = []
                for j, (a_, b_) in enumerate(zip(want, qs)):
                    if j == 0 and first_has_start:
                        # a subpath without its own move: its data cannot carry the start point; compare the rest
                        conds.append(ctx.and_(ctx.close(a_.end.x, b_.end.x, 0, 1e-9), ctx.close(a_.end.y, b_.end.y, 0, 1e-9)))
                    else:
                        conds.append(seg_conds(ctx, S, a_, b_))
                ctx.claim("subpath%d.d() geometry" % i, ctx.and_(*conds))
        return
    q = S.Path(text)
    compare_paths(ctx, S, "reparse", list(abs(p)), list(q))
    if how == "sub":
        # each subpath alone: first segment may lack a move; compare drawn geometry of that subpath
        pass
    # a second round is a fixed point
    text2 = q.d(relative=relative, smooth=smooth)
    r = S.Path(text2)
    compare_paths(ctx, S, "second generation", list(q), list(r))


def h_arc(ctx, relative, in_path):
    """native arc (orthogonal conjugate radii) -> d() -> re-parse with the argument recorder"""
    S = ctx.S
    cx, cy = ctx.real("cx", -1000, 1000), ctx.real("cy", -1000, 1000)
    a, b = ctx.real("ra", 0.01, 100), ctx.real("rb", 0.01, 100)
    rho = ctx.real("rho", -3.1, 3.1)
    sw = ctx.real("sw", -6.2, 6.2)
    ctx.assume(ctx.xne(sw, 0))
    t0 = ctx.real("t0", -7, 7)
    co, si = ctx.cos(rho), ctx.sin(rho)
    prx = (cx + a * co, cy + a * si)
    pry = (cx - b * si, cy + b * co)

    def at(t):
        ct, st = ctx.cos(t), ctx.sin(t)
        return (cx + a * ct * co - b * st * si, cy + a * ct * si + b * st * co)
    start, end = at(t0), at(t0 + sw)
    arc = S.Arc(S.Point(*start), S.Point(*end), S.Point(cx, cy), S.Point(*prx), S.Point(*pry), sw)
    if in_path:
        mx, my = ctx.real("mx", -1000, 1000), ctx.real("my", -1000, 1000)
        p = S.Path(S.Move(None, (mx, my)), S.Line((mx, my), start), arc, S.Line(end, (mx, my)))
        text = p.d(relative=relative)
    else:
        arc.relative = bool(relative)
        p = S.Path(S.Move(None, start), arc)
        text = p.d(relative=relative)
    with G.ArcStub(S) as stub:
        q = S.Path(text)
        ok = len(stub.calls) == 1
        ctx.claim("arc re-read as one arc", ok, lambda: text)
        if not ok:
            return
        got = stub.calls[0]
        rx, ry, rot, fa, fs = got._symx_args
        ctx.claim("arc radii round trip", ctx.and_(ctx.close(rx, a, 0, 1e-9), ctx.close(ry, b, 0, 1e-9)))
        r = rot * ctx.num(__import__("fractions").Fraction(6.283185307179586) / 360)
        ctx.claim("arc rotation round trip (as a direction)", ctx.and_(ctx.close(ctx.cos(r), co, 0, 1e-9), ctx.close(ctx.sin(r), si, 0, 1e-9)))
        half = 6.283185307179586 / 2
        big = ctx.or_(ctx.gt(sw, half), ctx.lt(sw, 0 - half))
        ctx.claim("large-arc flag iff |sweep| > half turn", big if fa else ctx.not_(big))
        ctx.claim("sweep flag iff sweep >= 0", ctx.ge(sw, 0) if fs else ctx.lt(sw, 0))
        ctx.claim("arc end points round trip", ctx.and_(ctx.close(got.end.x, end[0], 0, 1e-9), ctx.close(got.end.y, end[1], 0, 1e-9),
                                                       ctx.close(got.start.x, start[0], 0, 1e-9), ctx.close(got.start.y, start[1], 0, 1e-9)))
        ctx.claim("segment count around the arc", len(q) == len(p))


def h_twin(ctx):
    """wrong claim: relative output re-parses to the offsets themselves"""
    S = ctx.S
    pieces, abstract = G.build(ctx, [("M", 1, False), ("L", 1, False), ("L", 1, False)])
    p = S.Path(" ".join(pieces))
    q = S.Path(p.d(relative=True))
    off = abstract[2][1][0][0]
    ctx.claim("twin", ctx.eq(q[2].end.x, off[0] - abstract[1][1][0][0][0] - 1))


NONARC = "MmZzLlHhVvCcSsQqTt"


def _grp(l, i):
    return 0 if l in "Zz" else (2 if i % 2 == 0 else 1)


def harnesses(tier):
    hs = []
    rs = [None, False, True]
    n = 3 if tier == "thorough" else 2
    k = 0
    seqs = [list(s) for s in itertools.product(NONARC, repeat=n)]
    chains = ["QS", "CT", "QTS", "CST", "LS", "LT", "QTTS", "CSST", "LzQT", "MLzLL", "mlzql", "QzT", "CzS", "HVhv", "qtz", "csZM", "LLzMLL", "Lz", "Czl",
              # a curve, non-curve segments that may come back to its end point, another curve (S/T must look at the segment just before)
              "CMC", "QMQ", "CLLC", "QzQ"]
    for lead in "Mm":
        for seq in seqs:
            cmds = [(lead, 1, False)] + [(l, _grp(l, i), False) for i, l in enumerate(seq)]
            r, s = rs[k % 3], rs[(k // 3) % 3]
            k += 1
            src = "objects" if k % 2 == 0 else "parsed"
            hs.append({"name": "rt/%s/r=%s/s=%s/%s" % ("".join(c[0] + str(c[1]) for c in cmds), r, s, src), "fn": "h_roundtrip",
                       "params": {"cmds": [list(c) for c in cmds], "relative": r, "smooth": s, "source": src}})
    for ch in chains:
        cmds = [("M", 1, False)] + [(l, _grp(l, i + 1), False) for i, l in enumerate(ch)]
        for r in rs:
            for s in rs:
                for src in ("parsed", "objects"):
                    hs.append({"name": "chain/%s/r=%s/s=%s/%s" % (ch, r, s, src), "fn": "h_roundtrip",
                               "params": {"cmds": [list(c) for c in cmds], "relative": r, "smooth": s, "source": src}})
        hs.append({"name": "chain/%s/str" % ch, "fn": "h_roundtrip", "params": {"cmds": [list(c) for c in cmds], "relative": None, "smooth": None, "how": "str"}})
        for r in (False, True):
            hs.append({"name": "chain/%s/subpath_d/r=%s" % (ch, r), "fn": "h_roundtrip", "params": {"cmds": [list(c) for c in cmds], "relative": r, "smooth": None, "how": "sub"}})
    for l in "LCSQT":
        cmds = [("M", 1, False), ("L", 1, False), (l, 1, True)]
        for r in rs:
            hs.append({"name": "zfinal/%s/r=%s" % (l, r), "fn": "h_roundtrip", "params": {"cmds": [list(c) for c in cmds], "relative": r, "smooth": None}})
    for r in rs:
        for ip in (False, True):
            hs.append({"name": "arc/r=%s/in_path=%s" % (r, ip), "fn": "h_arc", "params": {"relative": r, "in_path": ip}, "weight": 9, "claim_timeout_ms": 60000})
    hs.append({"name": "twin/offsets", "fn": "h_twin", "twin": True})
    return hs
