"""C17 -- appending path data continues the parse: Path(a) + b equals Path(a b)."""
import itertools
from . import pathgen as G

ID = "C17"
TOL = (1e-6, 1e-9)
BOUNDS = {
    "quick": "leading M/m followed by every sequence of 2 commands over the 20 letters, cut between the two commands (every way a can end x every way b can begin), "
             "plus 3-command smooth/close chains cut at every boundary and into three pieces; methods +, +=, parse(), Move-segment + string; Path+Path, Path+Shape; all numbers symbolic; Path + rect with a pending symbolic uniform-scale-and-translate transform",
    "thorough": "every sequence of 3 commands, all cuts (two and three pieces)",
}
OUTSIDE = ["sequences longer than the bound", "arc geometry (recorder stub, as C01)", "Path.append/extend with strings (not named by the property)"]
STUBS = ["Arc._svg_parameterize -> recorder"]
ASSUMPTIONS = ["oracle: the C01 specification interpreter run on the unsplit command list"]


def _construct(S, text, ctor):
    if ctor == "kw":
        return S.Path(d=text)
    if ctor == "dict":
        return S.Path({"d": text})
    if ctor == "copy":
        return S.Path(S.Path(text))
    if ctor == "copy_kw":
        from copy import copy
        return copy(S.Path(d=text))
    return S.Path(text)


def h_split(ctx, cmds, cuts, method, ctor="pos"):
    S = ctx.S
    cmds = [tuple(c) for c in cmds]
    pieces, abstract = G.build(ctx, cmds)
    osegs = G.Interp().run(abstract)
    bounds = [0] + list(cuts) + [len(cmds)]
    parts = [" ".join(pieces[bounds[i]:bounds[i + 1]]) for i in range(len(bounds) - 1)]
    with G.ArcStub(S):
        if method == "add":
            p = _construct(S, parts[0], ctor)
            for b in parts[1:]:
                q = p + b
                ctx.claim("add leaves operand", len(q) >= len(p) and q is not p)
                p = q
        elif method == "iadd":
            p = _construct(S, parts[0], ctor)
            for b in parts[1:]:
                p += b
        elif method == "parse":
            p = _construct(S, parts[0], ctor)
            for b in parts[1:]:
                p.parse(b)
        elif method == "segment":
            first = S.Path(parts[0])
            seg = first[0]
            p = seg + parts[1]
            for b in parts[2:]:
                p = p + b
        segs = list(p)
    G.compare(ctx, segs, osegs, method)


def h_concat(ctx, cmds_a, cmds_b, how):
    """Path + Path / Path + Shape that begins with a move: both geometries unchanged"""
    S = ctx.S
    gen = G.Gen(ctx)
    pa, aa = G.build(ctx, [tuple(c) for c in cmds_a], gen=gen)
    with G.ArcStub(S):
        A = S.Path(" ".join(pa))
        oa = G.Interp().run(aa)
        if how == "path":
            pb, ab = G.build(ctx, [tuple(c) for c in cmds_b], gen=gen)
            B = S.Path(" ".join(pb))
            ob = G.Interp().run(ab)
            r = A + B
            r2 = S.Path(A)
            r2 += B
            G.compare(ctx, list(B), ob, "operand B unchanged")
        else:
            x, y = gen.num(), gen.num()
            w, h = gen.num(1e-3, 1e5), gen.num(1e-3, 1e5)
            if how in ("rect", "rect_t"):
                B = S.Rect(x, y, w, h)
                pts = [(x, y), (x + w, y), (x + w, y + h), (x, y + h)]
                if how == "rect_t":
                    # a shape with a pending transform is drawn where the transform puts it
                    tx, ty, k = gen.num(), gen.num(), gen.num(0.5, 4)
                    B = S.Rect(x, y, w, h, transform=S.Matrix(k, 0, 0, k, tx, ty))
                    pts = [(k * px + tx, k * py + ty) for px, py in pts]
                ob = [dict(kind="Move", start=None, end=pts[0]), dict(kind="Line", start=pts[0], end=pts[1]), dict(kind="Line", start=pts[1], end=pts[2]),
                      dict(kind="Line", start=pts[2], end=pts[3]), dict(kind="Close", start=pts[3], end=pts[0])]
            elif how == "line":
                B = S.SimpleLine(x, y, w, h)
                ob = [dict(kind="Move", start=None, end=(x, y)), dict(kind="Line", start=(x, y), end=(w, h))]
            else:
                B = S.Polygon((x, y), (w, h), (y, x))
                ob = [dict(kind="Move", start=None, end=(x, y)), dict(kind="Line", start=(x, y), end=(w, h)), dict(kind="Line", start=(w, h), end=(y, x)),
                      dict(kind="Close", start=(y, x), end=(x, y))]
            r = A + B
            r2 = S.Path(A)
            r2 += B
        last = oa[-1]["end"] if oa else None
        ob2 = [dict(o) for o in ob]
        ob2[0]["start"] = last
        G.compare(ctx, list(r), oa + ob2, "A+B")
        G.compare(ctx, list(r2), oa + ob2, "A+=B")
        G.compare(ctx, list(A), oa, "operand A unchanged")


def h_twin(ctx):
    """wrong oracle: relative b resolved against the origin instead of a's end"""
    S = ctx.S
    cmds = [("M", 1, False), ("L", 1, False), ("l", 1, False)]
    pieces, abstract = G.build(ctx, cmds)
    p = S.Path(" ".join(pieces[:2])) + pieces[2]
    off = abstract[2][1][0][0]
    ctx.claim("twin", G.pt_eq(ctx, p[2].end, off))


def _grp(letter, i):
    if letter in "Zz":
        return 0
    return 2 if i % 2 == 1 else 1


def _name(cmds):
    return "".join("%s%d" % (c[0], c[1]) for c in cmds)


def harnesses(tier):
    hs = []
    methods = ["add", "iadd", "parse"]
    k = 0
    for lead in "Mm":
        for seq in itertools.product(G.LETTERS, repeat=2):
            cmds = [(lead, 1, False)] + [(l, _grp(l, i), False) for i, l in enumerate(seq)]
            m = methods[k % 3]
            k += 1
            hs.append({"name": "split/%s/2/%s" % (_name(cmds), m), "fn": "h_split", "params": {"cmds": [list(c) for c in cmds], "cuts": [2], "method": m}})
            if tier == "thorough":
                for m2 in methods:
                    if m2 != m:
                        hs.append({"name": "split/%s/2/%s" % (_name(cmds), m2), "fn": "h_split", "params": {"cmds": [list(c) for c in cmds], "cuts": [2], "method": m2}})
    # b directly after the move (a = move only), incl. Move-segment + string
    for lead in "Mm":
        for l in G.LETTERS:
            cmds = [(lead, 2, False), (l, _grp(l, 1), False)]
            for m in ("add", "segment"):
                if m == "segment":
                    cmds = [(lead, 1, False), (l, _grp(l, 1), False)]
                hs.append({"name": "split/%s/1/%s" % (_name(cmds), m), "fn": "h_split", "params": {"cmds": [list(c) for c in cmds], "cuts": [1], "method": m}})
    chains = ["QTT", "CSS", "QTS", "CST", "LZT", "QZt", "CZs", "zzl", "ZmT", "Aat", "hvs", "TtT", "SsS", "qtz", "csZ", "LzM", "mmz", "Zzh"]
    if tier == "thorough":
        chains = ["".join(s) for s in itertools.product(G.LETTERS, repeat=3)]
    for i, ch in enumerate(chains):
        cmds = [("M", 1, False)] + [(l, _grp(l, j), False) for j, l in enumerate(ch)]
        for cuts in ([1], [2], [3], [1, 2], [2, 3], [1, 3]):
            m = methods[(i + len(cuts) + cuts[0]) % 3]
            ctor = ["pos", "kw", "dict", "copy", "copy_kw"][(i + cuts[0] + len(cuts)) % 5]
            hs.append({"name": "split/%s/%s/%s/%s" % (_name(cmds), "-".join(map(str, cuts)), m, ctor), "fn": "h_split",
                       "params": {"cmds": [list(c) for c in cmds], "cuts": cuts, "method": m, "ctor": ctor}})
            if len(cuts) == 2:
                for m2 in methods:
                    for c2 in ("kw", "dict", "copy_kw"):
                        hs.append({"name": "split/%s/%s/%s/%s" % (_name(cmds), "-".join(map(str, cuts)), m2, c2), "fn": "h_split",
                                   "params": {"cmds": [list(c) for c in cmds], "cuts": cuts, "method": m2, "ctor": c2}})
    enders = ["L", "z", "C", "Q", "A", "m", "h", "T"]
    for e in enders:
        ca = [("M", 1, False), (e, _grp(e, 0), False)]
        for how, cb in (("path", [("M", 1, False), ("l", 1, False), ("z", 0, False)]), ("path", [("m", 2, False), ("t", 1, False)]),
                        ("rect", None), ("rect_t", None), ("line", None), ("polygon", None)):
            hs.append({"name": "concat/%s/%s%s" % (_name(ca), how, _name(cb) if cb else ""), "fn": "h_concat",
                       "params": {"cmds_a": [list(c) for c in ca], "cmds_b": [list(c) for c in cb] if cb else None, "how": how}})
    hs.append({"name": "twin/relative", "fn": "h_twin", "twin": True})
    return hs
