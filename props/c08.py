"""C08 -- bounding boxes contain the geometry and are tight."""
from copy import copy

ID = "C08"
TOL = (1e-6, 1e-6)
BOUNDS = {
    "quick": "Move/Line/Close exact; QuadraticBezier.bbox: containment for ALL t in [0,1] and tightness (each side is an end point or the stationary point) for all control "
             "points (|coord| <= 1e3); CubicBezier.bbox: containment for all t per branch of _real_minmax (reported per path; inconclusive ones listed), ordering, end points "
             "inside; Arc.bbox for zero sweep; Arc.bbox for non-zero sweep on seeded paths (36 concrete arcs over rotation quadrant x start x sweep x direction; on each arc's "
             "symbolic path, with centre/radii/rotation/start/sweep symbolic inside that arc's 45 x 90 degree band: the candidate angles are stationary points of x(t), y(t), and every stationary "
             "angle atan + k pi, k in -5..5, strictly inside the sweep has its coordinate inside the box) plus band exploration for unrotated ellipses at the corners of the range; aggregation: Path / Subpath (transformed and untransformed) / Group / Use boxes are the union of member boxes for <=3 members "
             "built from lines and quadratics, grown by half the (implicit) stroke width iff a stroke is painted",
    "thorough": "cubic containment with a 120 s budget per branch; paths of 3 segments; 160 seeded arcs (all four rotation quadrants, both radius orders) and band exploration (<= 100 paths each) "
                "for rotation 0, 90 degrees and two general quadrants",
}
OUTSIDE = ["Arc.bbox for non-zero sweep beyond the seeded paths and bands listed in the bounds; that x(t), y(t) have no other stationary points than atan + k pi and that a continuous "
           "function on an interval takes its extremes at the ends or at stationary points (paper step); Arc.get_start_t (contract stub)", "tightness of cubic boxes",
           "IEEE behaviour of the |denom| < 1e-8 threshold branch beyond exact reals"]
STUBS = ["Arc.get_start_t -> the harness's start parameter (arc_box harnesses, symbolic run only; the concrete seed/replay runs the real one)"]
ASSUMPTIONS = ["oracle: Bernstein form of the curves, stationary points from the derivative",
               "seeded paths: branches follow a concrete seed arc (its feasibility is witnessed by the seed, which is also run concretely); claims are decided by the solver for every input on that path"]
V = 1000


def P(ctx, n, i):
    return (ctx.real("%s%dx" % (n, i), -V, V), ctx.real("%s%dy" % (n, i), -V, V))


def ordered(ctx, bb):
    return ctx.and_(ctx.le(bb[0], bb[2]), ctx.le(bb[1], bb[3]))


def inside(ctx, bb, p, slack=0):
    return ctx.and_(ctx.le(bb[0] - slack, p[0]), ctx.le(p[0], bb[2] + slack), ctx.le(bb[1] - slack, p[1]), ctx.le(p[1], bb[3] + slack))


def h_linear(ctx, kind):
    S = ctx.S
    a, b = P(ctx, "p", 0), P(ctx, "p", 1)
    seg = {"Line": S.Line, "Close": S.Close}.get(kind, None)
    if kind == "Move":
        s = S.Move(a, b)
        bb = s.bbox()
        ctx.claim("Move box is its end point", ctx.and_(ctx.eq(bb[0], b[0]), ctx.eq(bb[2], b[0]), ctx.eq(bb[1], b[1]), ctx.eq(bb[3], b[1])))
        return
    s = seg(a, b)
    bb = s.bbox()
    t = ctx.real("t", 0, 1)
    pt = (a[0] + t * (b[0] - a[0]), a[1] + t * (b[1] - a[1]))
    ctx.claim("%s box ordered" % kind, ordered(ctx, bb))
    ctx.claim("%s box contains every point" % kind, inside(ctx, bb, pt))
    ctx.claim("%s box tight" % kind, ctx.and_(ctx.or_(ctx.eq(bb[0], a[0]), ctx.eq(bb[0], b[0])), ctx.or_(ctx.eq(bb[2], a[0]), ctx.eq(bb[2], b[0])),
                                              ctx.or_(ctx.eq(bb[1], a[1]), ctx.eq(bb[1], b[1])), ctx.or_(ctx.eq(bb[3], a[1]), ctx.eq(bb[3], b[1]))))


def quad_at(p0, p1, p2, t):
    u = 1 - t
    return (u * u * p0[0] + 2 * u * t * p1[0] + t * t * p2[0], u * u * p0[1] + 2 * u * t * p1[1] + t * t * p2[1])


def h_quad(ctx):
    S = ctx.S
    p0, p1, p2 = P(ctx, "p", 0), P(ctx, "p", 1), P(ctx, "p", 2)
    q = S.QuadraticBezier(p0, p1, p2)
    bb = q.bbox()
    t = ctx.real("t", 0, 1)
    ctx.claim("quadratic box ordered", ordered(ctx, bb))
    ctx.claim("quadratic box contains B(t) for all t", inside(ctx, bb, quad_at(p0, p1, p2, t)))
    # tightness: each side is attained at an end point or at the interior stationary point of that coordinate
    for ax, lo, hi in ((0, bb[0], bb[2]), (1, bb[1], bb[3])):
        s0, c, e = p0[ax], p1[ax], p2[ax]
        den = s0 - 2 * c + e
        cands_lo = [ctx.eq(lo, s0), ctx.eq(lo, e)]
        cands_hi = [ctx.eq(hi, s0), ctx.eq(hi, e)]
        if den != 0:
            ts = (s0 - c) / den
            if 0 < ts < 1:
                v = quad_at(p0, p1, p2, ts)[ax]
                cands_lo.append(ctx.eq(lo, v))
                cands_hi.append(ctx.eq(hi, v))
        ctx.claim("quadratic box tight on axis %d" % ax, ctx.and_(ctx.or_(*cands_lo), ctx.or_(*cands_hi)))


def cubic_at(p, t):
    u = 1 - t
    return tuple(u * u * u * p[0][k] + 3 * u * u * t * p[1][k] + 3 * u * t * t * p[2][k] + t * t * t * p[3][k] for k in (0, 1))


def h_cubic(ctx, axis_only=True):
    S = ctx.S
    p = [P(ctx, "p", i) for i in range(4)]
    c = S.CubicBezier(*p)
    lo, hi = c._real_minmax(0)
    bb = (lo, 0, hi, 0)
    ctx.claim("cubic range ordered", ctx.le(lo, hi))
    ctx.claim("cubic range contains both end points", ctx.and_(ctx.le(lo, p[0][0]), ctx.le(p[0][0], hi), ctx.le(lo, p[3][0]), ctx.le(p[3][0], hi)))
    t = ctx.real("t", 0, 1)
    x = cubic_at(p, t)[0]
    # the 1e-8 threshold branch drops a cubic term of size < 1e-8: allow that much slack
    ctx.claim("cubic range contains B(t) for all t", ctx.and_(ctx.le(lo - 1e-6, x), ctx.le(x, hi + 1e-6)))
    full = c.bbox()
    ctx.claim("cubic bbox assembles the two ranges", ctx.and_(ctx.eq(full[0], lo), ctx.eq(full[2], hi)))


def h_arc_zero(ctx):
    S = ctx.S
    a, b = P(ctx, "p", 0), P(ctx, "p", 1)
    arc = S.Arc(a, 0, ctx.real("ry", 0, 10), 0, 0, 1, b)     # zero radius: degenerate, sweep 0
    bb = arc.bbox()
    ctx.claim("zero-sweep arc box ordered", ordered(ctx, bb))
    ctx.claim("zero-sweep arc box contains its end points", ctx.and_(inside(ctx, bb, a), inside(ctx, bb, b)))
    t = ctx.real("t", 0, 1)
    ctx.claim("zero-sweep arc box contains the chord", inside(ctx, bb, (a[0] + t * (b[0] - a[0]), a[1] + t * (b[1] - a[1]))))


TAU = 6.283185307179586


def h_arc_box(ctx, rot, tband, sband, sign, solo=None):
    """Arc.bbox for a non-zero sweep: the candidate angles are stationary points and none inside the sweep is skipped"""
    from fractions import Fraction
    S = ctx.S
    if solo is None:
        cx, cy = ctx.real("cx", -V, V), ctx.real("cy", -V, V)
        a, b = ctx.real("ra", 0.01, 1000), ctx.real("rb", 0.01, 1000)
        ctx.assume(ctx.and_(ctx.xle(a, 100 * b), ctx.xle(b, 100 * a)))
    else:
        # the index logic does not depend on position or scale: unit major radius at the origin
        cx, cy, a = 0.0, 0.0, 1.0
        b = ctx.real("rb", 0.01, 100)
    eps = 0.01
    if rot == "zero":
        co, si = 1.0, 0.0
    elif rot == "quarter":
        co, si = 0.0, 1.0
    else:
        q = int(rot[1:])
        rho = ctx.real("rho", (q - 2) * TAU / 4 + eps, (q - 1) * TAU / 4 - eps)
        co, si = ctx.cos(rho), ctx.sin(rho)
    if tband is not None:
        t0 = ctx.real("t0", tband * TAU / 8 + 1e-3, (tband + 1) * TAU / 8 - 1e-3)
        w = ctx.real("sweep", sband * TAU / 4 + 1e-3, (sband + 1) * TAU / 4 - 1e-3)
    else:
        t0 = ctx.real("t0", 1e-3, TAU - 1e-3)
        w = ctx.real("sweep", 1e-3, TAU - 1e-3)
    sweep = w if sign > 0 else 0 - w

    def E(t):
        ct, st = ctx.cos(t), ctx.sin(t)
        return (cx + a * ct * co - b * st * si, cy + a * ct * si + b * st * co)
    start, end = E(t0), E(t0 + sweep)
    arc = S.Arc(S.Point(*start), S.Point(*end), S.Point(cx, cy), S.Point(cx + a * co, cy + a * si), S.Point(cx - b * si, cy + b * co), sweep)
    if ctx.mode != "concrete":
        arc.get_start_t = lambda: t0      # contract stub: point_at_t(get_start_t()) = start holds by construction
    half = ctx.num(Fraction(TAU) / 2)
    lo_t, hi_t = (t0, t0 + sweep) if sign > 0 else (t0 + sweep, t0)
    if solo is not None:
        # one candidate index on its own: the stationary angle number k lies strictly inside the sweep, its
        # neighbours with the same coordinate value (k - 2, k + 2) do not
        axis, k0 = solo
        phi = arc.get_rotation().as_radians
        if rot == "zero":
            base = 0.0 if axis == "x" else TAU / 4.0
        elif rot == "quarter":
            base = TAU / 4.0 if axis == "x" else 0.0
        else:
            # the same expressions as the code's (memoised: the same solver variable)
            base = S.atan(-(arc.ry / arc.rx) * S.tan(phi)) if axis == "x" else S.atan((arc.ry / arc.rx) / S.tan(phi))
        pk = base + k0 * half
        ctx.assume(ctx.and_(ctx.xle(lo_t + 1e-6, pk), ctx.xle(pk, hi_t - 1e-6),
                            ctx.or_(ctx.xlt(pk - 2 * half, lo_t - 1e-6), ctx.xgt(pk - 2 * half, hi_t + 1e-6)),
                            ctx.or_(ctx.xlt(pk + 2 * half, lo_t - 1e-6), ctx.xgt(pk + 2 * half, hi_t + 1e-6))))
    bb, L = ctx.capture_locals("bbox", lambda: arc.bbox())
    ctx.claim("arc box ordered and contains both end points", ctx.and_(ordered(ctx, bb), inside(ctx, bb, start), inside(ctx, bb, end)))
    ax, ay = L["atan_x"], L["atan_y"]
    cax, sax, cay, say = ctx.cos(ax), ctx.sin(ax), ctx.cos(ay), ctx.sin(ay)
    ctx.claim("candidate angles are stationary points of x(t) and y(t)",
              ctx.and_(ctx.eq(0 - a * sax * co - b * cax * si, 0), ctx.eq(0 - a * say * si + b * cay * co, 0)))
    # strictly inside (1e-9): at the ends the stationary point is the start or end point itself, and the code's own
    # parameter 0 <= t <= 1 is computed with the float 360/tau (one rounding away from the exact ratio)
    for k in range(-5, 6):
        px = ax + k * half
        py = ay + k * half
        xk = E(px)[0]
        yk = E(py)[1]
        ctx.claim("no stationary point of x inside the sweep is skipped (k=%d)" % k,
                  ctx.implies(ctx.and_(ctx.xle(lo_t + 1e-9, px), ctx.xle(px, hi_t - 1e-9)), ctx.and_(ctx.le(bb[0], xk), ctx.le(xk, bb[2]))))
        ctx.claim("no stationary point of y inside the sweep is skipped (k=%d)" % k,
                  ctx.implies(ctx.and_(ctx.xle(lo_t + 1e-9, py), ctx.xle(py, hi_t - 1e-9)), ctx.and_(ctx.le(bb[1], yk), ctx.le(yk, bb[3]))))


def build(ctx, S, kinds, prefix="q"):
    """path of lines/quadratics; returns (path, list of per-segment point lists)"""
    segs, pts = [], []
    cur = P(ctx, prefix, 0)
    segs.append(S.Move(None, cur))
    k = 1
    for kd in kinds:
        if kd == "L":
            e = P(ctx, prefix, k)
            k += 1
            segs.append(S.Line(cur, e))
            pts.append([cur, e])
            cur = e
        elif kd == "Q":
            c, e = P(ctx, prefix, k), P(ctx, prefix, k + 1)
            k += 2
            segs.append(S.QuadraticBezier(cur, c, e))
            pts.append([cur, c, e])
            cur = e
        elif kd == "M":
            e = P(ctx, prefix, k)
            k += 1
            segs.append(S.Move(cur, e))
            cur = e
    return S.Path(*segs), pts


def seg_point(pts, t):
    if len(pts) == 2:
        return (pts[0][0] + t * (pts[1][0] - pts[0][0]), pts[0][1] + t * (pts[1][1] - pts[0][1]))
    return quad_at(pts[0], pts[1], pts[2], t)


def app(m, p):
    return (m[0] * p[0] + m[2] * p[1] + m[4], m[1] * p[0] + m[3] * p[1] + m[5])


def h_path(ctx, kinds, transformed, with_stroke, stroke, container="path", mclass="scale"):
    S = ctx.S
    p, pts = build(ctx, S, kinds)
    if mclass == "general":
        mv = ctx.reals("ma mb mc md me mf", -5, 5)
        m = tuple(mv)
    else:
        sx, sy, e, f = ctx.real("sx", 0.1, 5), ctx.real("sy", 0.1, 5), ctx.real("e", -V, V), ctx.real("f", -V, V)
        m = (0 - sx, 0, 0, sy, e, f)
    w = ctx.real("w", 0.01, 50)
    p.transform = S.Matrix(*m)
    p.stroke_width = w
    p.stroke = S.Color(stroke) if stroke is not None else None
    if container == "path":
        bb = p.bbox(transformed=transformed, with_stroke=with_stroke)
    elif container == "subpath":
        bb = p.subpath(0).bbox(transformed=transformed, with_stroke=with_stroke)
    elif container == "group":
        g = S.Group()
        g.append(p)
        bb = g.bbox(transformed=transformed, with_stroke=with_stroke)
    else:
        u = S.Use()
        u.append(p)
        bb = u.bbox(transformed=transformed, with_stroke=with_stroke)
    ctx.claim("box exists", bb is not None)
    if bb is None:
        return
    if container == "subpath" and "M" in kinds:
        pts = pts[:kinds.index("M")]     # the view covers the first subpath only
    painted = with_stroke and stroke not in (None, "none")
    if painted:
        det = m[0] * m[3] - m[1] * m[2]
        delta = (w * ctx.sqrt(ctx.absval(det)) / 2) if transformed else (w / 2)
    else:
        delta = 0
    inner = (bb[0] + delta, bb[1] + delta, bb[2] - delta, bb[3] - delta)
    ctx.claim("box ordered", ordered(ctx, inner))
    t = ctx.real("t", 0, 1)
    mm = m if transformed else (1, 0, 0, 1, 0, 0)
    conds = []
    for sp in pts:
        if container == "subpath" and False:
            pass
        conds.append(inside(ctx, inner, app(mm, seg_point(sp, t)) if len(sp) == 2 else seg_point([app(mm, q) for q in sp], t)))
    ctx.claim("box (shrunk by the stroke margin) contains every point of every segment", ctx.and_(*conds))
    # tightness of the union: each side touches some member's own box side (here: some defining or stationary point lies on it)
    xs, ys = [], []
    for sp in pts:
        for q in sp:
            qq = app(mm, q)
            xs.append(qq[0])
            ys.append(qq[1])
    hull = ctx.and_(ctx.ge(inner[0], min_list(ctx, xs)), ctx.le(inner[2], max_list(ctx, xs)), ctx.ge(inner[1], min_list(ctx, ys)), ctx.le(inner[3], max_list(ctx, ys)))
    ctx.claim("box within the control hull (no slack beyond defining points)", hull)


def min_list(ctx, vs):
    r = vs[0]
    for v in vs[1:]:
        r = ctx.ite(ctx.lt(v, r), v, r)
    return r


def max_list(ctx, vs):
    r = vs[0]
    for v in vs[1:]:
        r = ctx.ite(ctx.gt(v, r), v, r)
    return r


def h_union(ctx, container, transformed):
    """container of two shapes: the box is the union of the children's boxes"""
    S = ctx.S
    a, pa = build(ctx, S, "L", "a")
    # second member: concrete curve, symbolic placement (keeps the member's own box computation off the path count)
    b = S.Path(S.Move(None, (1, 2)), S.QuadraticBezier((1, 2), (7, -3), (4, 6)), S.Line((4, 6), (-2, 3)))
    sx = ctx.real("sx", 0.1, 5)
    a.transform = S.Matrix(0 - sx, 0, 0, sx, ctx.real("ae", -V, V), ctx.real("af", -V, V))
    b.transform = S.Matrix(2, 0, 0, 3, ctx.real("be", -V, V), ctx.real("bf", -V, V))
    c = S.Group() if container == "group" else S.Use()
    inner = S.Group()
    inner.append(b)
    c.append(a)
    c.append(inner)
    bb = c.bbox(transformed=transformed)
    ba, bbx = a.bbox(transformed=transformed), b.bbox(transformed=transformed)
    want = (ctx.ite(ctx.lt(ba[0], bbx[0]), ba[0], bbx[0]), ctx.ite(ctx.lt(ba[1], bbx[1]), ba[1], bbx[1]),
            ctx.ite(ctx.gt(ba[2], bbx[2]), ba[2], bbx[2]), ctx.ite(ctx.gt(ba[3], bbx[3]), ba[3], bbx[3]))
    ctx.claim("%s box is the union of its rendered descendants" % container, ctx.and_(*[ctx.eq(u, v) for u, v in zip(bb, want)]))
    e = S.Group() if container == "group" else S.Use()
    ctx.claim("empty %s has no box" % container, e.bbox() is None)


def h_twin(ctx):
    S = ctx.S
    p0, p1, p2 = P(ctx, "p", 0), P(ctx, "p", 1), P(ctx, "p", 2)
    bb = S.QuadraticBezier(p0, p1, p2).bbox()
    ctx.claim("twin", ctx.le(bb[0], p1[0]))   # WRONG: the control point need not be inside


def harnesses(tier):
    hs = []
    for k in ("Move", "Line", "Close"):
        hs.append({"name": "linear/%s" % k, "fn": "h_linear", "params": {"kind": k}})
    hs.append({"name": "quadratic", "fn": "h_quad", "weight": 5})
    hs.append({"name": "cubic", "fn": "h_cubic", "weight": 9, "no_dual": True, "claim_timeout_ms": 20000 if tier != "thorough" else 120000, "budget_s": 140 if tier != "thorough" else 1500})
    hs.append({"name": "arc_zero_sweep", "fn": "h_arc_zero"})
    th = tier == "thorough"
    # each extreme candidate index on its own, in the corner of the (start, sweep) range where it is needed
    for rot in ():      # (the 'one candidate index on its own' variant needs solver models nlsat does not find in time: not registered)
        for axis in ("x", "y"):
            for (tb, sb, sign, k0) in ((7, 3, 1, 4), (7, 3, 1, 3), (0, 3, -1, -2), (0, 3, -1, -1)) + (((7, 2, 1, 3), (6, 3, 1, 3), (0, 0, 1, 0), (0, 0, 1, 1), (7, 0, -1, 1), (7, 0, -1, 2)) if th else ()):
                hs.append({"name": "arc_box_solo/%s/%s/t%d/s%d/%+d/k=%d" % (rot, axis, tb, sb, sign, k0), "fn": "h_arc_box", "no_dual": True, "branch_timeout_ms": 1500,
                           "claim_timeout_ms": 15000 if not th else 60000, "budget_s": 100 if not th else 600, "max_paths": 12 if not th else 200,
                           "params": {"rot": rot, "tband": tb, "sband": sb, "sign": sign, "solo": [axis, k0]}, "weight": 6})
    # seeded paths: the symbolic path taken by a concrete arc, claims decided for every arc on that path
    for q in (range(4) if th else (1, 2)):
        rho = (q - 2) * TAU / 4 + 0.5
        for t0 in ((0.4, 1.3, 3.0, 4.8, 6.1) if th else (0.4, 3.0, 6.1)):
            for w in ((0.7, 2.0, 3.6, 6.25) if th else (0.7, 3.6, 6.25)):
                for sign in (1, -1):
                    for (ra, rb) in (((3.0, 1.5),) if (not th or int(t0 * 10 + w * 10) % 2) else ((1.5, 3.0),)):
                        hs.append({"name": "arc_box_seed/q%d/t0=%s/w=%s/%+d/%s,%s" % (q, t0, w, sign, ra, rb), "fn": "h_arc_box", "no_dual": True,
                                   "claim_timeout_ms": 6000 if not th else 60000, "budget_s": 120 if not th else 300, "max_paths": 1,
                                   "params": {"rot": "q%d" % q, "tband": int(t0 / (TAU / 8)), "sband": int(w / (TAU / 4)), "sign": sign},
                                   "seed": {"cx": 10.0, "cy": -20.0, "ra": ra, "rb": rb, "rho": rho, "t0": t0, "sweep": w}, "weight": 4})
    rots = ("zero", "quarter", "q1", "q2") if th else ("zero",)
    for rot in rots:
        for tband in range(8):
            for sband in range(4):
                for sign in (1, -1):
                    # quick tier: the corners of the (start, sweep) range, where the outermost candidate indices matter, plus a diagonal
                    if not (tband in (0, 7) and sband in (0, 3)) and not (th and tband == 2 * sband + 1):
                        continue
                    hs.append({"name": "arc_box/%s/t%d/s%d/%+d" % (rot, tband, sband, sign), "fn": "h_arc_box", "no_dual": True, "branch_timeout_ms": 1500,
                               "claim_timeout_ms": 15000 if not th else 60000, "budget_s": 120 if not th else 300, "max_paths": 40 if not th else 100,
                               "params": {"rot": rot, "tband": tband, "sband": sband, "sign": sign}, "weight": 8, "order": "mixed"})
    kinds = ["L", "LL", "LML", "Q"] + (["LQ", "QQ", "LLQ"] if tier == "thorough" else [])
    i = 0
    for kd in kinds:
        for transformed in (True, False):
            for ws, stroke in ((False, "red"), (True, "red"), (True, "none"), (True, None)):
                for cont in ("path", "subpath", "group", "use"):
                    i += 1
                    if "Q" in kd and cont != "path" and tier != "thorough":
                        continue
                    mclass = "general" if (kd == "L" and cont == "path") else "scale"
                    if kd == "LML" and i % 4 != 0 and tier != "thorough":
                        continue
                    hs.append({"name": "agg/%s/%s/t=%s/ws=%s/%s" % (cont, kd, transformed, ws, stroke), "fn": "h_path", "budget_s": 100,
                               "params": {"kinds": kd, "transformed": transformed, "with_stroke": ws, "stroke": stroke, "container": cont, "mclass": mclass},
                               "weight": len(kd)})
    for cont in ("group", "use"):
        for tr in (True, False):
            hs.append({"name": "union/%s/t=%s" % (cont, tr), "fn": "h_union", "params": {"container": cont, "transformed": tr}, "weight": 3})
    hs.append({"name": "twin/control_inside", "fn": "h_twin", "twin": True})
    return hs
