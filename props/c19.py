"""C19 -- arc-to-Bezier conversion keeps end points, continuity and a bounded error.

Decomposition (each piece is a solver query over the real functions):

  kernel      the real as_cubic_curves / as_quad_curves on the unit circle, one slice of symbolic angle phi in
              (0, phi_max] (either direction): the curve's point at s in {1/4, 1/2, 3/4} lies within eps of the
              circle, for phi_max = 36 degrees (the coarsest default subdivision: Path.approximate_arcs_with_*,
              error=0.1; Arc.as_*_curves() uses 30 degrees) and eps = 1e-3 (cubic) / 1e-2 (quadratic); and within
              eps/4, eps/16 for phi_max = 18, 9 degrees (the bound shrinks with finer subdivision).
  equivariance for an arbitrary arc (centre, radii, rotation, start parameter, sweep all symbolic) and n = 1..3
              slices, every control point is the affine image (unit circle -> the arc's ellipse) of the kernel's
              control point at the slice's angles: so every curve is the affine image of a kernel curve, and its
              distance to the ellipse is at most max(rx, ry) times the kernel's distance to the circle.
  structure   n curves, the first starts at the stored start point, the last ends at the stored end point (the stored
              objects' values, not recomputed ones), consecutive curves join, interior joints lie on the ellipse at
              start parameter + k * sweep / n; zero sweep -> no curves; default count = ceil(|sweep| / 30 degrees).
  path        Path.approximate_arcs_with_cubics / _with_quads: the arc is replaced in place, other segments keep
              their values, the path stays connected, no arc is left; count = ceil(|sweep| / (tau * error)).
"""
from fractions import Fraction

ID = "C19"
TOL = (1e-6, 1e-7)
TAU = 6.283185307179586
V = 1000
BOUNDS = {
    "quick": "kernel: slice angle phi symbolic in (0, 36 deg] / (0, 18 deg] / (0, 9 deg] and the mirrored ranges, curve parameter s in {1/4, 1/2, 3/4}; "
             "equivariance and structure: centre in +-1000, radii in [0.01, 1000] with ratio <= 100, rotation, start parameter in +-7 rad, sweep in +-[0.001, 7] rad, "
             "explicit subdivision n in 1..3; default subdivision for |sweep| <= 90 deg (n <= 3) in equivariance harnesses and |sweep| <= 7 rad (n <= 14) for count/end points; "
             "path: M L A L z with symbolic arc (n in 1..2 by error setting 0.1 / 0.25 and |sweep| range); M A L A with a symbolic arc of 1..3 slices followed by a concrete quarter circle",
    "thorough": "as quick with n in 1..4, curve parameter s symbolic in [0, 1] attempted for the kernel (undecided instances are reported as such), 120 s per claim",
}
OUTSIDE = ["the error bound for every curve parameter s in [0, 1] (quick tier decides it at s = 1/4, 1/2, 3/4; numerically the maximum is at s = 1/2)",
           "Arc.get_start_t (angle_at_point / point_at_angle / t_at_point, an atan2-tan chain): replaced in the symbolic run by its contract; the concrete replay runs the real one",
           "IEEE rounding", "subdivision counts above 4 in the control point formulas (count and end points are covered up to 14)"]
STUBS = ["Arc.get_start_t -> the harness's start parameter t0 (contract: point_at_t(get_start_t()) = start, which holds by construction of the arc from t0); symbolic run only"]
ASSUMPTIONS = ["facts about real cos/sin used: c^2 + s^2 = 1, exact values at quarter turns, angle addition, and monotone enclosures of cos/sin at multiples of 9 degrees (1e-12)",
               "distance to the ellipse <= max(rx, ry) * distance of the pre-image to the unit circle (the affine map is max(rx, ry)-Lipschitz): paper step, not a query"]

DEG = TAU / 360.0


def _E(ctx, cx, cy, a, b, co, si, t):
    ct, st = ctx.cos(t), ctx.sin(t)
    return (cx + a * ct * co - b * st * si, cy + a * ct * si + b * st * co)


def _dE(ctx, a, b, co, si, t):
    ct, st = ctx.cos(t), ctx.sin(t)
    return (0 - a * co * st - b * si * ct, 0 - a * si * st + b * co * ct)


def _mk_arc(ctx, with_end=True, rot=True):
    S = ctx.S
    cx, cy = ctx.real("cx", -V, V), ctx.real("cy", -V, V)
    a, b = ctx.real("ra", 0.01, 1000), ctx.real("rb", 0.01, 1000)
    ctx.assume(ctx.and_(ctx.xle(a, 100 * b), ctx.xle(b, 100 * a)))
    if rot:
        rho = ctx.real("rho", -7, 7)
        co, si = ctx.cos(rho), ctx.sin(rho)
    else:
        co, si = 1.0, 0.0
    t0 = ctx.real("t0", -7, 7)
    return S, cx, cy, a, b, co, si, t0


def _build(ctx, S, cx, cy, a, b, co, si, t0, sweep):
    start = _E(ctx, cx, cy, a, b, co, si, t0)
    end = _E(ctx, cx, cy, a, b, co, si, t0 + sweep)
    arc = S.Arc(S.Point(*start), S.Point(*end), S.Point(cx, cy), S.Point(cx + a * co, cy + a * si), S.Point(cx - b * si, cy + b * co), sweep)
    if ctx.mode != "concrete":
        arc.get_start_t = lambda: t0      # contract stub (see STUBS)
    return arc, start, end


def _sweep(ctx, sign, lo, hi):
    w = ctx.real("sweep", lo, hi)
    return w if sign > 0 else 0 - w


def _alpha_cubic(ctx, phi):
    tn = ctx.tan(phi / 2)
    return ctx.sin(phi) * (ctx.sqrt(4 + 3 * tn * tn) - 1) / 3


def _alpha_quad(ctx, phi):
    return (4 - ctx.cos(phi)) / 3


def h_general(ctx, kind, n, sign):
    """structure + equivariance, explicit subdivision count"""
    S, cx, cy, a, b, co, si, t0 = _mk_arc(ctx)
    sweep = _sweep(ctx, sign, 0.001, 7)
    arc, start, end = _build(ctx, S, cx, cy, a, b, co, si, t0, sweep)
    curves = list(arc.as_cubic_curves(n) if kind == "cubic" else arc.as_quad_curves(n))
    _claims(ctx, kind, curves, n, arc, start, end, cx, cy, a, b, co, si, t0, sweep)


def _claims(ctx, kind, curves, n, arc, start, end, cx, cy, a, b, co, si, t0, sweep, controls=True):
    S = ctx.S
    ctx.claim("as many curves as slices", len(curves) == n)
    if len(curves) != n or n == 0:
        return
    want = S.CubicBezier if kind == "cubic" else S.QuadraticBezier
    ctx.claim("curves of the requested degree", all(type(c) is want for c in curves))
    ctx.claim_points_eq("chain starts at the arc's start point", curves[0].start, arc.start)
    ctx.claim_points_eq("chain ends at the arc's end point", curves[-1].end, arc.end)
    ctx.claim_points_eq("arc end points are the stored ones", arc.start, start)
    for i in range(n - 1):
        ctx.claim_points_eq("consecutive curves join", curves[i].end, curves[i + 1].start)
    if not controls:
        return
    phi = sweep / n
    for i in range(n - 1):
        ctx.claim_points_eq("interior joints lie on the ellipse at t0 + k sweep / n", curves[i].end, _E(ctx, cx, cy, a, b, co, si, t0 + (i + 1) * phi))
    if kind == "cubic":
        al = _alpha_cubic(ctx, phi)
        for i, c in enumerate(curves):
            ti, tj = t0 + i * phi, t0 + (i + 1) * phi
            d1 = _dE(ctx, a, b, co, si, ti)
            d2 = _dE(ctx, a, b, co, si, tj)
            ctx.claim("cubic control points: affine image of the unit-circle kernel's (P + alpha E'(t))",
                      ctx.and_(ctx.eq(c.control1[0], c.start[0] + al * d1[0]), ctx.eq(c.control1[1], c.start[1] + al * d1[1]),
                               ctx.eq(c.control2[0], c.end[0] - al * d2[0]), ctx.eq(c.control2[1], c.end[1] - al * d2[1])))
    else:
        al = _alpha_quad(ctx, phi)
        for i, c in enumerate(curves):
            tm = t0 + i * phi + phi / 2
            m = _E(ctx, cx, cy, a, b, co, si, tm)
            ctx.claim("quadratic control point: affine image of the unit-circle kernel's (alpha E(t_mid))",
                      ctx.and_(ctx.eq(c.control[0], cx + al * (m[0] - cx)), ctx.eq(c.control[1], cy + al * (m[1] - cy))))


def h_default(ctx, kind, sign, nmax, controls):
    """default subdivision: count = ceil(|sweep| / 30 degrees)"""
    S, cx, cy, a, b, co, si, t0 = _mk_arc(ctx, rot=controls)
    hi = 7 if nmax >= 14 else nmax * (TAU / 12) - 1e-6
    sweep = _sweep(ctx, sign, 0.001, hi)
    arc, start, end = _build(ctx, S, cx, cy, a, b, co, si, t0, sweep)
    ctx.option("ceil_range", (0, nmax))
    curves = list(arc.as_cubic_curves() if kind == "cubic" else arc.as_quad_curves())
    n = len(curves)
    w = sweep if sign > 0 else 0 - sweep
    lim = ctx.num(Fraction(TAU / 12.0))      # the float the code divides by
    ctx.claim("default subdivision: the least count with slices of at most 30 degrees", ctx.and_(ctx.le(w, n * lim), ctx.gt(w, (n - 1) * lim)))
    _claims(ctx, kind, curves, n, arc, start, end, cx, cy, a, b, co, si, t0, sweep, controls=controls)


def h_zero(ctx, kind):
    """zero sweep: nothing is drawn"""
    S, cx, cy, a, b, co, si, t0 = _mk_arc(ctx)
    arc, start, end = _build(ctx, S, cx, cy, a, b, co, si, t0, 0.0)
    curves = list(arc.as_cubic_curves() if kind == "cubic" else arc.as_quad_curves())
    ctx.claim("zero extent: no curves", len(curves) == 0)
    p = S.Path(S.Move(S.Point(*start)), arc, S.Line(S.Point(*start), S.Point(cx, cy)))
    if kind == "cubic":
        p.approximate_arcs_with_cubics()
    else:
        p.approximate_arcs_with_quads()
    ctx.claim("zero extent arc in a path: removed, rest untouched", len(p) == 2 and isinstance(p[0], S.Move) and isinstance(p[1], S.Line))
    if len(p) == 2:
        ctx.claim_points_eq("zero extent arc in a path: still connected", p[1].start, p[0].end)


def h_kernel(ctx, kind, band, sign, s, default):
    """unit circle, one slice: radial error of the real curve's point at parameter s"""
    S = ctx.S
    phimax_deg, shrink = band
    lo = 0.001
    phi = ctx.real("phi", lo, phimax_deg * DEG)
    if sign < 0:
        phi = 0 - phi
    ctx.angle_brackets(phi, [lo, phimax_deg * DEG])
    ctx.angle_brackets(phi / 2, [lo / 2, phimax_deg * DEG / 2])
    ctx.option("param_first", True)
    arc = S.Arc(S.Point(1, 0), S.Point(ctx.cos(phi), ctx.sin(phi)), S.Point(0, 0), S.Point(1, 0), S.Point(0, 1), phi)
    if default:
        ctx.option("ceil_range", (0, 2))
        curves = list(arc.as_cubic_curves() if kind == "cubic" else arc.as_quad_curves())
    else:
        curves = list(arc.as_cubic_curves(1) if kind == "cubic" else arc.as_quad_curves(1))
    ctx.claim("one slice", len(curves) == 1)
    if len(curves) != 1:
        return
    if s is None:
        sv = ctx.real("s", 0, 1)
    else:
        sv = s
    p = curves[0].point(sv)
    eps = Fraction(1, 1000) if kind == "cubic" else Fraction(1, 100)
    eps = eps / shrink
    r2 = p.x * p.x + p.y * p.y
    ctx.claim("kernel: |r - 1| <= %s for slices up to %s degrees" % (eps, phimax_deg),
              ctx.and_(ctx.le(r2, ctx.num((1 + eps) ** 2)), ctx.ge(r2, ctx.num((1 - eps) ** 2))))
    if s is not None and kind == "cubic":
        c = curves[0]
        # end tangents are the circle's tangents, pointing along the sweep
        ctx.claim("kernel: end tangents are the circle's, along the sweep",
                  ctx.and_(ctx.eq(c.control1[0], 1), (ctx.gt if sign > 0 else ctx.lt)(c.control1[1], 0),
                           ctx.eq((c.control2[0] - c.end[0]) * c.end[0] + (c.control2[1] - c.end[1]) * c.end[1], 0)))


def h_path(ctx, kind, error, sign, nmax):
    """arc embedded in a path"""
    S, cx, cy, a, b, co, si, t0 = _mk_arc(ctx, rot=False)
    step = TAU * error
    sweep = _sweep(ctx, sign, 0.001, nmax * step - 1e-6)
    start = _E(ctx, cx, cy, a, b, co, si, t0)
    end = _E(ctx, cx, cy, a, b, co, si, t0 + sweep)
    x0, y0, x3, y3 = ctx.reals("x0 y0 x3 y3", -V, V)
    arc = S.Arc(S.Point(*start), S.Point(*end), S.Point(cx, cy), S.Point(cx + a * co, cy + a * si), S.Point(cx - b * si, cy + b * co), sweep)
    p = S.Path(S.Move(S.Point(x0, y0)), S.Line(S.Point(x0, y0), S.Point(*start)), arc, S.Line(S.Point(*end), S.Point(x3, y3)), S.Close(S.Point(x3, y3), S.Point(x0, y0)))
    ctx.claim("path built as given", len(p) == 5 and isinstance(p[2], S.Arc))
    if ctx.mode != "concrete":
        orig = S.Arc.get_start_t
        S.Arc.get_start_t = lambda self: t0
    ctx.option("ceil_range", (0, nmax))
    try:
        if error == 0.1:
            (p.approximate_arcs_with_cubics if kind == "cubic" else p.approximate_arcs_with_quads)()
        else:
            (p.approximate_arcs_with_cubics if kind == "cubic" else p.approximate_arcs_with_quads)(error)
    finally:
        if ctx.mode != "concrete":
            S.Arc.get_start_t = orig
    n = len(p) - 4
    w = sweep if sign > 0 else 0 - sweep
    lim = ctx.num(Fraction(TAU * error))     # the float the code divides by
    ctx.claim("path: slices of at most tau * error", ctx.and_(ctx.le(w, n * lim), ctx.gt(w, (n - 1) * lim)))
    if n < 1:
        return
    ctx.claim("path: no arc left, the other segments keep their place", isinstance(p[0], S.Move) and isinstance(p[1], S.Line) and isinstance(p[-2], S.Line) and isinstance(p[-1], S.Close)
              and all(type(c) is (S.CubicBezier if kind == "cubic" else S.QuadraticBezier) for c in p[2:2 + n]))
    ctx.claim("path: the other segments keep their values",
              ctx.and_(ctx.eq(p[0].end[0], x0), ctx.eq(p[0].end[1], y0), ctx.eq(p[1].start[0], x0), ctx.eq(p[1].start[1], y0), ctx.eq(p[1].end[0], start[0]), ctx.eq(p[1].end[1], start[1]),
                       ctx.eq(p[-2].start[0], end[0]), ctx.eq(p[-2].start[1], end[1]), ctx.eq(p[-2].end[0], x3), ctx.eq(p[-2].end[1], y3),
                       ctx.eq(p[-1].start[0], x3), ctx.eq(p[-1].start[1], y3), ctx.eq(p[-1].end[0], x0), ctx.eq(p[-1].end[1], y0)))
    for i in range(1, len(p)):
        ctx.claim_points_eq("path: connected", p[i].start, p[i - 1].end)
    curves = list(p[2:2 + n])
    _claims(ctx, kind, curves, n, arc, start, end, cx, cy, a, b, co, si, t0, sweep, controls=(n <= 2))


def h_path_two(ctx, kind, sign):
    """two arcs in one path: both are converted, wherever they stand"""
    S, cx, cy, a, b, co, si, t0 = _mk_arc(ctx, rot=False)
    step = TAU * 0.1
    sweep = _sweep(ctx, sign, 0.001, 3 * step - 1e-6)
    start = _E(ctx, cx, cy, a, b, co, si, t0)
    end = _E(ctx, cx, cy, a, b, co, si, t0 + sweep)
    arc1 = S.Arc(S.Point(*start), S.Point(*end), S.Point(cx, cy), S.Point(cx + a * co, cy + a * si), S.Point(cx - b * si, cy + b * co), sweep)
    arc2 = S.Arc(S.Point(50, 0), S.Point(0, 50), S.Point(0, 0), S.Point(50, 0), S.Point(0, 50), TAU / 4)      # concrete quarter circle: 3 slices of 30 degrees
    # the second arc is the last segment: whatever the first one expands to must not push it out of reach
    p = S.Path(S.Move(S.Point(*start)), arc1, S.Line(S.Point(*end), S.Point(50, 0)), arc2)
    ctx.claim("path built as given", len(p) == 4 and isinstance(p[1], S.Arc) and isinstance(p[3], S.Arc))
    if ctx.mode != "concrete":
        orig = S.Arc.get_start_t
        S.Arc.get_start_t = lambda self: (t0 if self is p[1] else 0.0)
    ctx.option("ceil_range", (0, 3))
    try:
        (p.approximate_arcs_with_cubics if kind == "cubic" else p.approximate_arcs_with_quads)()
    finally:
        if ctx.mode != "concrete":
            S.Arc.get_start_t = orig
    ctx.claim("two arcs: none is left", not any(isinstance(sg, S.Arc) for sg in p))
    n1 = len(p) - 2 - 3
    w = sweep if sign > 0 else 0 - sweep
    lim = ctx.num(Fraction(TAU * 0.1))
    ctx.claim("two arcs: first arc in slices of at most tau * error, second in three", ctx.and_(ctx.le(w, n1 * lim), ctx.gt(w, (n1 - 1) * lim)))
    for i in range(1, len(p)):
        ctx.claim_points_eq("two arcs: connected", p[i].start, p[i - 1].end)
    ctx.claim_points_eq("two arcs: the line between them keeps its end", p[1 + max(n1, 0)].end, (50, 0))


def h_twin(ctx):
    """WRONG on purpose: claims the quadratic kernel is as accurate as the cubic"""
    S = ctx.S
    phi = ctx.real("phi", 0.001, 36 * DEG)
    ctx.angle_brackets(phi, [0.001, 36 * DEG])
    ctx.angle_brackets(phi / 2, [0.0005, 18 * DEG])
    ctx.option("param_first", True)
    arc = S.Arc(S.Point(1, 0), S.Point(ctx.cos(phi), ctx.sin(phi)), S.Point(0, 0), S.Point(1, 0), S.Point(0, 1), phi)
    c = list(arc.as_quad_curves(1))[0]
    p = c.point(0.5)
    r2 = p.x * p.x + p.y * p.y
    eps = Fraction(1, 1000)
    ctx.claim("twin", ctx.and_(ctx.le(r2, ctx.num((1 + eps) ** 2)), ctx.ge(r2, ctx.num((1 - eps) ** 2))))


def harnesses(tier):
    hs = []
    th = tier == "thorough"
    to = 120000 if th else 15000
    common = {"claim_timeout_ms": to, "no_dual": True, "branch_timeout_ms": 2000}
    for kind in ("cubic", "quad"):
        for band in ((36, 1), (18, 4), (9, 16)):
            if kind == "cubic" and band[0] == 9 and not th:
                continue        # 200 s per instance: thorough tier only
            for sign in (1, -1):
                for s in (0.25, 0.5, 0.75):
                    hs.append(dict(common, name="kernel/%s/%d/%+d/s=%s" % (kind, band[0], sign, s), fn="h_kernel",
                                   params={"kind": kind, "band": list(band), "sign": sign, "s": s, "default": False}, budget_s=120 if not th else 900))
                if th:
                    hs.append(dict(common, name="kernel/%s/%d/%+d/s=any" % (kind, band[0], sign), fn="h_kernel",
                                   params={"kind": kind, "band": list(band), "sign": sign, "s": None, "default": False}, budget_s=900))
        for sign in (1, -1):
            hs.append(dict(common, name="kernel_default/%s/%+d" % (kind, sign), fn="h_kernel",
                           params={"kind": kind, "band": [30, 1], "sign": sign, "s": 0.5, "default": True}, budget_s=120))
            for n in (1, 2, 3) + ((4,) if th else ()):
                hs.append(dict(common, name="general/%s/n=%d/%+d" % (kind, n, sign), fn="h_general", params={"kind": kind, "n": n, "sign": sign},
                               budget_s=150 if not th else 1500, weight=5 + n))
            hs.append(dict(common, name="default/%s/%+d/controls" % (kind, sign), fn="h_default", params={"kind": kind, "sign": sign, "nmax": 3, "controls": True},
                           budget_s=150 if not th else 1500, weight=8))
            hs.append(dict(common, name="default/%s/%+d/count" % (kind, sign), fn="h_default", params={"kind": kind, "sign": sign, "nmax": 14, "controls": False},
                           budget_s=150 if not th else 900, weight=8))
            for error, nmax in ((0.1, 2), (0.25, 2)):
                hs.append(dict(common, name="path/%s/%s/%+d" % (kind, error, sign), fn="h_path", params={"kind": kind, "error": error, "sign": sign, "nmax": nmax},
                               budget_s=150 if not th else 1500, weight=8))
        hs.append(dict(common, name="zero/%s" % kind, fn="h_zero", params={"kind": kind}))
        for sign in (1, -1):
            hs.append(dict(common, name="path_two/%s/%+d" % (kind, sign), fn="h_path_two", params={"kind": kind, "sign": sign}, budget_s=100))
    hs.append(dict(common, name="twin/quad_as_good_as_cubic", fn="h_twin", twin=True, budget_s=60))
    return hs
