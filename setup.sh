#!/bin/sh
# Nothing to build: verifies that the tooling interpreter, z3 and the replay interpreter are usable offline.
set -e
cd "$(dirname "$0")"
python3-vt -c "import z3, sys; assert sys.version_info[:2] >= (3, 10); print('z3', z3.get_version_string())"
/venv/bin/python -c "import sys; sys.path.insert(0, '/repo'); import svgelements; print('svgelements', svgelements.SVGELEMENTS_VERSION)"
PYTHONPATH=/verif python3-vt -c "from symx import core, symstr; S = core.load_module(); print('symx ok, rebound:', len(S._symx_rebound))"
mkdir -p evidence replays
