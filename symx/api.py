"""Harness-facing API.  A harness is a plain Python function h(ctx, **params) that
drives the real module through ctx.S and states claims through ctx.claim(...).
The same function runs (a) symbolically under python3-vt (SymCtx: inputs are solver
variables, claims are solver queries) and (b) concretely under /venv/bin/python
(ConcreteCtx: inputs are the numbers of a counterexample, claims are float
comparisons with a tolerance) -- which is how every counterexample is replayed on
the unmodified module before it is reported.

This file must stay importable without z3.
"""
import math
import os
import sys


class AssumptionNotMet(Exception):
    pass


class ClaimFailed(Exception):
    def __init__(self, name, detail):
        Exception.__init__(self, "%s: %s" % (name, detail))
        self.name = name
        self.detail = detail


class Allowed(Exception):
    """raised by harnesses to end a path that is legitimately over (e.g. documented ValueError)"""


def load_plain_module():
    for m in ("numpy", "scipy", "PIL"):
        sys.modules.setdefault(m, None) if False else None
    repo = os.environ.get("SYMX_REPO", "/repo")
    if repo not in sys.path:
        sys.path.insert(0, repo)
    import svgelements.svgelements as S
    return S


class ConcreteCtx:
    mode = "concrete"

    def __init__(self, S, inputs, rel=1e-6, abs_=1e-9, stop_on_fail=True):
        self.S = S
        self.inputs = dict(inputs)
        self.rel = rel
        self.abs = abs_
        self.failed = []
        self.checked = []
        self.stop_on_fail = stop_on_fail
        self.only_claim = None
        self.notes = []

    # inputs -----------------------------------------------------------------
    def real(self, name, lo=None, hi=None, nonzero=False):
        if name not in self.inputs:
            raise AssumptionNotMet("no value for input %s" % name)
        v = float(self.inputs[name])
        if (lo is not None and v < lo) or (hi is not None and v > hi) or (nonzero and v == 0):
            raise AssumptionNotMet("input %s=%r outside declared range" % (name, v))
        return v

    def reals(self, names, lo=None, hi=None):
        return [self.real(n, lo, hi) for n in names.split()]

    def integer(self, name, lo, hi):
        if name not in self.inputs:
            raise AssumptionNotMet("no value for input %s" % name)
        v = int(self.inputs[name])
        if v < lo or v > hi:
            raise AssumptionNotMet("input %s outside range" % name)
        return v

    def string(self, name, length, alphabet=None):
        if name not in self.inputs:
            raise AssumptionNotMet("no value for input %s" % name)
        s = self.inputs[name]
        if isinstance(s, list):
            s = "".join(chr(c) for c in s)
        if len(s) != length:
            raise AssumptionNotMet("string length")
        return s

    def chars(self, name, alphabets):
        """string with one character per entry of `alphabets` (each a string of allowed characters, or None = any)"""
        s = self.string(name, len(alphabets))
        for c, a in zip(s, alphabets):
            if a is not None and c not in a:
                raise AssumptionNotMet("character outside its class")
        return s

    def ordinals(self, s):
        return [ord(c) for c in s]

    def fresh(self, name):
        """auxiliary existential (model-chosen) value"""
        return self.real(name)

    # conditions ---------------------------------------------------------------
    def _tol(self, a, b, scale=None):
        return self.abs + self.rel * max(abs(a), abs(b), abs(float(scale)) if scale is not None else 0.0)

    def eq(self, a, b, scale=None):
        a, b = float(a), float(b)
        if math.isnan(a) or math.isnan(b):
            return False
        return abs(a - b) <= self._tol(a, b, scale)

    def ne(self, a, b):
        return not self.eq(a, b)

    def le(self, a, b, scale=None):
        a, b = float(a), float(b)
        return a <= b + self._tol(a, b, scale)

    def lt(self, a, b):
        return float(a) < float(b)

    def ge(self, a, b, scale=None):
        return self.le(b, a, scale)

    def close(self, a, b, rel=1e-6, abs_=0.0):
        """|a-b| <= rel*|b| + abs_ (b is the reference value)"""
        a, b = float(a), float(b)
        return abs(a - b) <= rel * 1.001 * abs(b) + abs_ + self._tol(a, b) * 1e-3

    def gt(self, a, b):
        return self.lt(b, a)

    # exact variants (for assumptions)
    def xeq(self, a, b): return float(a) == float(b)
    def xne(self, a, b): return float(a) != float(b)
    def xle(self, a, b): return float(a) <= float(b)
    def xlt(self, a, b): return float(a) < float(b)
    def xge(self, a, b): return float(a) >= float(b)
    def xgt(self, a, b): return float(a) > float(b)

    def and_(self, *cs): return all(cs)
    def or_(self, *cs): return any(cs)
    def not_(self, c): return not c
    def implies(self, a, b): return (not a) or b
    def true(self): return True
    def ite(self, c, a, b): return a if c else b
    def sqrt(self, x): return math.sqrt(x)
    def cos(self, x): return math.cos(x)
    def sin(self, x): return math.sin(x)
    def tan(self, x): return math.tan(x)
    def num(self, x): return float(x)
    def angle_brackets(self, x, points): pass

    def frac(self, x):
        """x modulo 1, in [0, 1)"""
        return float(x) % 1.0

    def floor(self, x):
        return math.floor(x)

    def idiv(self, x, k):
        return int(x) // k

    def imod(self, x, k):
        return int(x) % k
    def absval(self, x): return abs(x)
    def is_symbolic(self, x): return False
    def term(self, x): return float(x)
    def cond_of(self, b): return bool(b)

    def assume(self, cond):
        if not cond:
            raise AssumptionNotMet("assumption false for these inputs")

    def claim(self, name, cond, detail=None):
        if self.only_claim is not None and name != self.only_claim:
            return
        self.checked.append(name)
        if not cond:
            self.failed.append((name, detail() if callable(detail) else detail))
            if self.stop_on_fail:
                raise ClaimFailed(name, self.failed[-1][1])

    def claim_eq(self, name, a, b):
        self.claim(name, self.eq(a, b), lambda: "%r != %r" % (float(a), float(b)))

    def claim_points_eq(self, name, p, q):
        self.claim(name, self.eq(p[0], q[0]) and self.eq(p[1], q[1]),
                   lambda: "(%r,%r) != (%r,%r)" % (float(p[0]), float(p[1]), float(q[0]), float(q[1])))

    def option(self, name, value):
        pass

    def claim_generalised(self, name, hyps, claim, subterms, keep_path=True):
        if all(bool(h) for h in hyps):
            self.claim(name, claim)

    def note(self, s):
        self.notes.append(s)

    def on_witness(self, name, fn):
        """run fn(concrete ctx) on this path's witness; an exception is a violation candidate"""
        fn(self)

    def unsupported(self, why):
        raise AssumptionNotMet("unsupported in model: " + why)

    def capture_locals(self, funcname, fn):
        """run fn() and return the locals of the (last) call of the named repo function"""
        captured = {}

        def tracer(frame, event, arg):
            if frame.f_code.co_name == funcname:
                def local(frame, event, arg):
                    if event == "return":
                        captured.clear()
                        captured.update(frame.f_locals)
                    return local
                return local
            return None
        old = sys.gettrace()
        sys.settrace(tracer)
        try:
            r = fn()
        finally:
            sys.settrace(old)
        return r, captured
