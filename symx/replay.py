"""Replay one counterexample on the unmodified module with plain floats.
exit 1: reproduces (claim fails / exception escapes); 0: does not; 2: assumption not met."""
import importlib
import json
import os
import sys
import traceback

VERIF = os.path.dirname(os.path.dirname(os.path.abspath(__file__)))
sys.path.insert(0, VERIF)
for m in ("numpy", "scipy", "PIL"):
    sys.modules[m] = None
REPO = os.environ.get("SYMX_REPO", "/repo")
sys.path.insert(0, REPO)


def main(path):
    blob = json.load(open(path))
    from symx.api import ConcreteCtx, ClaimFailed, AssumptionNotMet, Allowed
    import svgelements.svgelements as S
    mod = importlib.import_module(blob["module"])
    setup = getattr(mod, "setup_module_concrete", None)
    if setup:
        setup(S)
    fn = getattr(mod, blob["fn"])
    ctx = ConcreteCtx(S, blob["inputs"], rel=blob["tol"][0], abs_=blob["tol"][1])
    if blob["kind"] == "claim":
        ctx.only_claim = blob["claim"]
    print("replay %s harness=%s claim=%s" % (blob["property"], blob["harness"], blob["claim"]))
    print("inputs: %s" % json.dumps(blob["inputs"], sort_keys=True))
    try:
        try:
            fn(ctx, **blob["params"])
        except Allowed:
            pass
    except ClaimFailed as e:
        if blob["kind"] == "claim":
            print("claim fails on the real module: %s" % e)
            return 1
        print("other claim failed: %s" % e)
        return 0
    except AssumptionNotMet as e:
        print("assumption not met: %s" % e)
        return 2
    except RecursionError as e:
        if blob["kind"] == "exception" and blob.get("exc_type") == "RecursionError":
            print("exception escapes: RecursionError")
            return 1
        print("claim could not be evaluated: RecursionError")
        return 1 if blob["kind"] == "claim" else 0
    except Exception as e:
        tb = traceback.format_exc()
        if blob["kind"] == "exception":
            if type(e).__name__ == blob.get("exc_type"):
                print("exception escapes on the real module: %r\n%s" % (e, tb[-800:]))
                return 1
            print("different exception: %r" % e)
            return 0
        print("exception while evaluating claim: %r\n%s" % (e, tb[-800:]))
        return 1
    if blob["kind"] == "claim" and blob["claim"] not in ctx.checked:
        print("claim not reached concretely")
        return 0
    print("holds concretely (checked %d claims)" % len(ctx.checked))
    return 0


if __name__ == "__main__":
    sys.exit(main(sys.argv[1]))
