"""Symbolic implementation of the harness API (python3-vt, z3)."""
import sys
import time
from fractions import Fraction

import z3

from . import core, symstr
from .core import SymReal, SymInt, lift, Unsupported, PathAbort
from .api import Allowed


def _t(x):
    """number -> z3 Real term"""
    if z3.is_expr(x):
        return x
    return lift(x)


def _b(c):
    if isinstance(c, bool):
        return z3.BoolVal(c)
    return c


class SymCtx:
    mode = "sym"

    def __init__(self, S, ex, claim_timeout_ms):
        self.S = S
        self.ex = ex
        self.claim_timeout_ms = claim_timeout_ms
        self.records = []      # per-claim results on this path
        self.notes = []
        self.only_claim = None

    # inputs -----------------------------------------------------------------
    def _declare(self, *cs):
        self.ex.assumptions.extend(cs)
        self.ex.add(*cs)

    def real(self, name, lo=None, hi=None, nonzero=False):
        v = core.fresh_real(name)
        if not hasattr(self.ex, "input_bounds") or self.ex.input_bounds_owner is not self.ex.cons:
            self.ex.input_bounds = {}
            self.ex.input_bounds_owner = self.ex.cons
        self.ex.input_bounds[name] = (lo, hi)
        cs = []
        if lo is not None:
            cs.append(v.e >= lift(lo))
        if hi is not None:
            cs.append(v.e <= lift(hi))
        if nonzero:
            cs.append(v.e != 0)
        if cs:
            self._declare(*cs)
        return v

    def reals(self, names, lo=None, hi=None):
        return [self.real(n, lo, hi) for n in names.split()]

    def integer(self, name, lo, hi):
        v = z3.Int(name)
        self.ex.inputs[name] = v
        self.ex.has_int = True
        self._declare(v >= lo, v <= hi)
        return SymInt(v)

    def string(self, name, length, alphabet=None):
        """symbolic string of fixed length; alphabet: None (any Unicode scalar) or a
        string of allowed characters"""
        chars = []
        for i in range(length):
            c = symstr.fresh_char("%s[%d]" % (name, i))
            if alphabet is not None:
                self._declare(z3.Or([c == ord(a) for a in alphabet]))
            chars.append(c)
        self.ex.inputs_strings = getattr(self.ex, "inputs_strings", {})
        self.ex.inputs_strings[name] = chars
        return symstr.mkstr(chars)

    def chars(self, name, alphabets):
        cs = []
        for i, a in enumerate(alphabets):
            if a is not None and len(a) == 1:
                cs.append(ord(a))
                continue
            c = symstr.fresh_char("%s[%d]" % (name, i))
            if a is not None:
                self._declare(z3.Or([c == ord(x) for x in a]))
            cs.append(c)
        self.ex.inputs_strings = getattr(self.ex, "inputs_strings", {})
        self.ex.inputs_strings[name] = cs
        return symstr.mkstr(cs)

    def ordinals(self, s):
        return [SymInt(c) if symstr.is_sym(c) else c for c in symstr.lift_chars(s)]

    def fresh(self, name):
        return core.fresh_real(name)

    # conditions ---------------------------------------------------------------
    # `scale` only matters to the concrete (float) evaluation of the same claim: it names the magnitude of the terms
    # that cancel in a - b, so that the float tolerance is relative to them; the solver compares exact reals
    def eq(self, a, b, scale=None): return _t(a) == _t(b)
    def ne(self, a, b): return _t(a) != _t(b)
    def le(self, a, b, scale=None): return _t(a) <= _t(b)
    def lt(self, a, b): return _t(a) < _t(b)
    def ge(self, a, b, scale=None): return _t(a) >= _t(b)
    def gt(self, a, b): return _t(a) > _t(b)
    xeq, xne, xle, xlt, xge, xgt = eq, ne, le, lt, ge, gt

    def close(self, a, b, rel=1e-6, abs_=0.0):
        a, b = _t(a), _t(b)
        r = lift(Fraction(rel).limit_denominator(10 ** 15))
        bound = r * z3.If(b >= 0, b, -b) + lift(Fraction(abs_).limit_denominator(10 ** 18))
        return z3.And(a - b <= bound, b - a <= bound)

    def and_(self, *cs): return z3.And([_b(c) for c in cs]) if cs else z3.BoolVal(True)
    def or_(self, *cs): return z3.Or([_b(c) for c in cs]) if cs else z3.BoolVal(False)
    def not_(self, c): return z3.Not(_b(c))
    def implies(self, a, b): return z3.Implies(_b(a), _b(b))
    def true(self): return z3.BoolVal(True)

    def ite(self, c, a, b):
        return SymReal(z3.If(_b(c), _t(a), _t(b)))

    def sqrt(self, x):
        return core.sym_sqrt(x if isinstance(x, SymReal) else SymReal(_t(x)))

    def cos(self, x): return core.sym_cos(x)
    def sin(self, x): return core.sym_sin(x)
    def tan(self, x): return core.sym_tan(x)

    def angle_brackets(self, x, points):
        """facts about the real cos/sin of angle x (monotone enclosures at the given breakpoints); no-op concretely"""
        core.angle_brackets(x, points)

    def num(self, x):
        """exact constant (Fraction/float/int) as a symbolic-compatible number"""
        return SymReal(_t(x)) if isinstance(x, Fraction) else x

    def frac(self, x):
        t = _t(x)
        self.ex.has_int = True
        return SymReal(t - z3.ToReal(z3.ToInt(t)))

    def floor(self, x):
        self.ex.has_int = True
        return SymInt(z3.ToInt(_t(x)))

    def idiv(self, x, k):
        self.ex.has_int = True
        return SymInt(x.e / k) if isinstance(x, SymInt) else int(x) // k

    def imod(self, x, k):
        self.ex.has_int = True
        return SymInt(x.e % k) if isinstance(x, SymInt) else int(x) % k

    def absval(self, x):
        t = _t(x)
        return SymReal(z3.If(t >= 0, t, -t))

    def is_symbolic(self, x):
        return isinstance(x, (SymReal, SymInt, symstr.SymStr))

    def term(self, x):
        return _t(x)

    def cond_of(self, b):
        return _b(b)

    def assume(self, cond):
        self.ex.assume(_b(cond))

    # claims -----------------------------------------------------------------
    def _path_feasible(self):
        ex = self.ex
        if ex.model is not None:
            return "sat"
        if getattr(ex, "shadow", None) is not None and not getattr(ex, "_shadow_left", False):
            return "sat"        # a seeded path is witnessed by its seed
        r, m = ex.check()
        if r == "sat":
            ex.model = m
        return r

    def claim(self, name, cond, detail=None):
        if self.only_claim is not None and name != self.only_claim:
            return
        ex = self.ex
        cond = z3.simplify(_b(cond))
        rec = {"claim": name, "unconfirmed_path": ex.unconfirmed}
        if z3.is_true(cond):
            rec["verdict"] = "proved"
            rec["trivial"] = True
            self.records.append(rec)
            return
        feas = self._path_feasible()
        if feas == "unsat":
            raise PathAbort("vacuous path")
        t0 = time.time()
        r = "unknown"
        m = None
        if ex.model is not None:
            # the path's own witness may already refute the claim (no search needed)
            try:
                v = ex.model.eval(cond, model_completion=True)
                if z3.is_false(v) and all(z3.is_true(ex.model.eval(c, model_completion=True)) for c in ex.cons):
                    r, m = "sat", ex.model
                    rec["by_witness"] = True
            except z3.Z3Exception:
                pass
        if r == "unknown" and ex.nonlinear and len(ex.cons) > 40 and ex.trig_ids:
            # cheap first: the claim may already follow from the path condition by linear reasoning over opaque products
            if ex.check_abstract(z3.Not(cond)) == "unsat":
                r = "unsat"
                rec["abstract"] = True
        sliced_first = r == "unknown" and ex.has_int and ex.nonlinear
        if sliced_first:
            # the path carries integer variables (modulo, rounding) that push every query to the generic solver;
            # the claim's cone of influence often does not: prove it there with nlsat first
            sl = ex.check_sliced(z3.Not(cond), timeout_ms=self.claim_timeout_ms)
            if sl is not None and sl[0] == "unsat":
                r = "unsat"
                rec["sliced"] = True
        if r == "unknown" and getattr(ex, "param_first", False):
            pr = ex.check_param(z3.Not(cond), timeout_ms=self.claim_timeout_ms * 4)
            if pr is not None and pr[0] != "unknown":
                r, m = pr
                rec["param"] = True
        if r == "unknown":
            r, m = ex.check(z3.Not(cond), timeout_ms=self.claim_timeout_ms)
        if r == "unknown":
            # second attempt on the claim's cone of influence only (sound for 'unsat'; a model found there is a
            # candidate that the replay has to confirm)
            sl = ex.check_sliced(z3.Not(cond), timeout_ms=self.claim_timeout_ms)
            if sl is not None and sl[0] != "unknown":
                r, m = sl
                rec["sliced"] = True
                if r == "sat":
                    # extend the slice's model to the whole path: pin the inputs it fixed and solve for the rest
                    pins = []
                    for name, var in ex.inputs.items():
                        v = m.eval(var, model_completion=False)
                        if not v.eq(var):
                            pins.append(var == v)
                    r2, m2 = ex.check(z3.Not(cond), *pins, timeout_ms=min(self.claim_timeout_ms, 10000))
                    if r2 == "sat":
                        m = m2
                        rec["sliced"] = "extended"
        if r == "unknown" and not rec.get("param") and (ex.subatoms or ex.trig_ids):
            pr = ex.check_param(z3.Not(cond), timeout_ms=self.claim_timeout_ms * 2)
            if pr is not None and pr[0] != "unknown":
                r, m = pr
                rec["param"] = True
        rec["solver_s"] = round(time.time() - t0, 4)
        if r == "unsat":
            rec["verdict"] = "proved" if feas == "sat" else "proved_if_reachable"
        elif r == "sat":
            rec["verdict"] = "cex"
            rec["inputs"] = self.model_inputs(m)
            if getattr(self, "last_raw_inputs", None):
                rec["inputs_alt"] = self.last_raw_inputs   # the model's own values, before angles were made physical
        else:
            rec["verdict"] = "unknown"
            if not getattr(ex, "_probed", False):
                ex._probed = True
                rec["probes"] = self.probe_inputs()
        self.records.append(rec)

    def probe_inputs(self, n=6):
        """inputs in general position that satisfy the constraints stated on inputs alone (ranges, assumptions):
        used to test undecided claims concretely; a failing one is replayed like any counterexample"""
        ex = self.ex
        names = {v.decl().name() for v in ex.inputs.values()}

        def only_inputs(c):
            todo, seen = [c], set()
            while todo:
                t = todo.pop()
                if t.get_id() in seen:
                    continue
                seen.add(t.get_id())
                if z3.is_const(t) and t.decl().kind() == z3.Z3_OP_UNINTERPRETED and t.decl().name() not in names:
                    return False
                todo.extend(t.children())
            return True
        bounds0 = getattr(ex, "input_bounds", {})
        base = [c for c in ex.assumptions if only_inputs(c)]
        for nm, var in ex.inputs.items():
            lo, hi = bounds0.get(nm, (None, None))
            if lo is not None:
                base.append(var >= lo)
            if hi is not None:
                base.append(var <= hi)
        reals = [v for v in ex.inputs.values() if z3.is_real(v)]
        out = []
        s = z3.Solver()
        s.set("timeout", 2000)
        s.add(*base)
        import itertools
        # general position, well conditioned: inputs differ pairwise by at least 1/4 and stay away from 0
        bounds = getattr(ex, "input_bounds", {})

        def wide(v):
            lo, hi = bounds.get(v.decl().name(), (None, None))
            return lo is None or hi is None or hi - lo >= 4
        wr = [v for v in reals if wide(v)]
        for i, (a, b) in enumerate(itertools.combinations(wr, 2)):
            if i < 80:
                s.add(z3.Or(a - b >= 0.25, b - a >= 0.25), z3.Or(a + b >= 0.25, a + b <= -0.25))
        for v in wr:
            s.add(z3.Or(v >= 0.125, v <= -0.125))
        for k in range(n):
            if s.check() != z3.sat:
                break
            m = s.model()
            out.append(self.model_inputs(m))
            # move away: next point differs from this one in every real input by more than 1/3 of its magnitude + 1/7
            for v in reals[:12]:
                val = m.eval(v, model_completion=True)
                s.add(z3.Or(v > val * 1.37 + 0.143, v < val * 0.61 - 0.143) if k % 2 == 0 else z3.Or(v > val + 1.7, v < val - 2.3))
        return out

    def claim_eq(self, name, a, b):
        self.claim(name, self.eq(a, b))

    def claim_points_eq(self, name, p, q):
        self.claim(name, z3.And(_t(p[0]) == _t(q[0]), _t(p[1]) == _t(q[1])))

    def model_inputs(self, m):
        out = {}
        strs = getattr(self.ex, "inputs_strings", {})
        in_str = set()
        for sname, chars in strs.items():
            vals = []
            for c in chars:
                if not symstr.is_sym(c):
                    vals.append(c)
                    continue
                v = m.eval(c, model_completion=True)
                vals.append(v.as_long())
                in_str.add(c.sexpr())
            out[sname] = vals
        for name, var in self.ex.inputs.items():
            if var.sexpr() in in_str:
                continue
            v = m.eval(var, model_completion=True)
            if z3.is_int_value(v):
                out[name] = v.as_long()
            else:
                out[name] = core.z3num_to_float(v)
        raw = dict(out)
        self._repair_angles(m, out)
        if raw != out:
            self.last_raw_inputs = raw
        else:
            self.last_raw_inputs = None
        return out

    def _repair_angles(self, m, out):
        """make angle inputs physical: the model fixes (cos, sin) tokens; an input that is
        (a rational multiple of) an angle atom gets the angle of its token, nearest to the
        model's own value modulo a turn.  Heuristic only -- replay decides."""
        import math
        for k, atom in self.ex.atom_terms.items():
            lf = core.linear_form(atom)
            coeffs, const = lf
            if len(coeffs) != 1:
                continue
            (var, q), = coeffs.values()
            name = None
            for n, v in self.ex.inputs.items():
                if v.sexpr() == var.sexpr():
                    name = n
            if name is None or q == 0:
                continue
            c, s = self.ex.angle_atoms[k]
            try:
                cv = core.z3num_to_float(m.eval(c, model_completion=True))
                sv = core.z3num_to_float(m.eval(s, model_completion=True))
            except Exception:
                continue
            ang = math.atan2(sv, cv)
            model_angle = float(q) * out[name] + float(const)
            lo, hi = getattr(self.ex, "input_bounds", {}).get(name, (None, None))
            # tokens of the sub-angles (atom / n) pick the turn
            subs = []
            for (k2, n2), (c2, s2) in self.ex.subatoms.items():
                if k2 == k:
                    try:
                        subs.append((n2, core.z3num_to_float(m.eval(c2, model_completion=True)), core.z3num_to_float(m.eval(s2, model_completion=True))))
                    except Exception:
                        pass
            best = None
            for kk in range(-12, 13):
                cand = (ang + kk * core.TAU - float(const)) / float(q)
                if (lo is not None and cand < lo) or (hi is not None and cand > hi):
                    continue
                av = ang + kk * core.TAU
                miss = sum(abs(math.cos(av / n2) - c2v) + abs(math.sin(av / n2) - s2v) for n2, c2v, s2v in subs)
                d = (round(miss, 6), abs(cand - out[name]))
                if best is None or d < best[0]:
                    best = (d, cand)
            if best is not None:
                out[name] = best[1]

    def witness_inputs(self):
        if self._path_feasible() != "sat":
            return None
        return self.model_inputs(self.ex.model)

    def option(self, name, value):
        setattr(self.ex, name, value)

    def note(self, s):
        self.notes.append(s)

    def on_witness(self, name, fn):
        """concolic step: run fn on a concrete witness of the current path (real module, plain
        values, in-process); an exception there becomes a counterexample candidate that is then
        replayed like any other"""
        from .api import ConcreteCtx, AssumptionNotMet, ClaimFailed
        w = self.witness_inputs()
        if w is None:
            self.records.append({"claim": name, "verdict": "unknown", "unconfirmed_path": True})
            return
        saved = core.EX
        core.EX = None
        try:
            cctx = ConcreteCtx(self.S, w)
            try:
                fn(cctx)
                self.records.append({"claim": name, "verdict": "proved", "unconfirmed_path": self.ex.unconfirmed, "witness_only": True, "trivial": True})
            except AssumptionNotMet:
                self.records.append({"claim": name, "verdict": "unknown", "unconfirmed_path": True})
            except ClaimFailed as e:
                self.records.append({"claim": e.name, "verdict": "cex", "inputs": w, "unconfirmed_path": self.ex.unconfirmed})
            except Exception as e:
                import traceback
                tb = traceback.extract_tb(e.__traceback__)
                where = "harness"
                for fr in tb:
                    if fr.filename.endswith("svgelements.py"):
                        where = fr.name
                self.records.append({"claim": "%s:exception:%s:%s" % (name, type(e).__name__, where), "verdict": "cex", "inputs": w,
                                     "unconfirmed_path": self.ex.unconfirmed, "witness_exception": type(e).__name__})
        finally:
            core.EX = saved

    def unsupported(self, why):
        raise Unsupported(why)

    def capture_locals(self, funcname, fn):
        captured = {}

        def tracer(frame, event, arg):
            if frame.f_code.co_name == funcname:
                def local(frame, event, arg):
                    if event == "return":
                        captured.clear()
                        captured.update(frame.f_locals)
                    return local
                return local
            return None
        old = sys.gettrace()
        sys.settrace(tracer)
        try:
            r = fn()
        finally:
            sys.settrace(old)
        return r, captured

    # lemma with generalisation: prove hyps => claim after replacing the given
    # sub-terms by fresh variables (sound: validity of the generalised formula
    # implies validity of the instance)
    def claim_generalised(self, name, hyps, claim, subterms, keep_path=True):
        ex = self.ex
        pairs = [(_t(t), z3.Real("G!%d" % i)) for i, t in enumerate(subterms)]
        hy = [z3.substitute(_b(h), *pairs) for h in hyps]
        cl = z3.substitute(_b(claim), *pairs)
        s = z3.SolverFor("QF_NRA")
        s.set("timeout", self.claim_timeout_ms)
        s.add(*hy)
        s.add(z3.Not(cl))
        t0 = time.time()
        ex.queries += 1
        r = s.check()
        dt = time.time() - t0
        ex.solver_time += dt
        rec = {"claim": name, "unconfirmed_path": ex.unconfirmed, "solver_s": round(dt, 4), "generalised": len(pairs)}
        if r == z3.unsat:
            ex.q_unsat += 1
            rec["verdict"] = "proved"
        elif r == z3.sat:
            ex.q_sat += 1
            # a model of the generalised formula need not be an instance: fall back to the direct query
            self.claim(name, z3.Implies(z3.And([_b(h) for h in hyps]) if hyps else z3.BoolVal(True), _b(claim)))
            return
        else:
            ex.q_unknown += 1
            rec["verdict"] = "unknown"
        self.records.append(rec)
