"""symx core: symbolic execution of the real svgelements module with z3.

Symbolic numbers are proxy objects (SymReal, a float subclass) whose C-level
double is a unique integer *tag*; arithmetic builds z3 Real terms, comparisons
fork through the path explorer.  Nothing of svgelements is translated by hand:
the code objects of /repo's working tree run on these proxies.
"""
import builtins
import math
import os
import sys
import time
from fractions import Fraction

import z3

_float = builtins.float
_int = builtins.int

TAU = 6.283185307179586
TAUQ = Fraction(TAU)  # exact rational value of the module's `tau`


class Unsupported(BaseException):
    """operation outside the encoding: ends the path as inconclusive"""


class PathAbort(BaseException):
    """path infeasible / assumption false"""


class HarnessError(Exception):
    pass


def _mentions_int(exprs):
    seen = set()
    todo = list(exprs)
    while todo:
        t = todo.pop()
        if t.get_id() in seen:
            continue
        seen.add(t.get_id())
        if z3.is_int(t):
            return True
        todo.extend(t.children())
    return False


def qval(fr):
    fr = Fraction(fr)
    return z3.RealVal(str(fr))


def _model_num(model, e):
    v = model.eval(e, model_completion=True)
    return z3num_to_float(v)


def z3num_to_float(v):
    if z3.is_rational_value(v):
        return _float(Fraction(v.numerator_as_long(), v.denominator_as_long()))
    if z3.is_algebraic_value(v):
        s = v.as_decimal(25).rstrip("?")
        return _float(s)
    if z3.is_int_value(v):
        return _float(v.as_long())
    if z3.is_true(v):
        return 1.0
    if z3.is_false(v):
        return 0.0
    raise HarnessError("cannot convert model value %r" % (v,))


class Explorer:
    """Depth-first exploration of branch decisions by re-execution."""

    def __init__(self, timeout_ms=10000, tag_base=100001, max_paths=200000):
        self.timeout_ms = timeout_ms
        self.tag_base = tag_base
        self.max_paths = max_paths
        self.queries = 0
        self.q_sat = 0
        self.q_unsat = 0
        self.q_unknown = 0
        self.solver_time = 0.0
        self.decisions = 0
        self.reset_path()

    # ---- per-path state -------------------------------------------------
    def reset_path(self):
        self.cons = []          # path condition + axioms, in order
        self.trace = []         # decisions taken
        self.prefix = []
        self.model = None       # model known to satisfy self.cons (or None)
        self.tags = {}
        self.next_tag = self.tag_base
        self.counters = {}
        self.nonlinear = False
        self.has_int = False
        self.unconfirmed = False   # some feasibility answer on this path was 'unknown'
        self.sqrtcache = {}
        self.atan2cache = {}
        self.angle_atoms = {}      # key -> (c, s)
        self.atom_terms = {}
        self.subatoms = {}
        self.inputs = {}           # name -> z3 var (insertion ordered)
        self.notes = []
        self.loop_budget = None
        self.concretize_digits = False
        self.ceil_range = None
        self.shadow_defs = {}      # internal variable name -> how its value follows from the others (seeded paths)
        self.shadow = ShadowModel(self) if getattr(self, "seed", None) else None
        self.param_first = False
        self.trig_ids = {}         # atom key -> ids of the circle / multiple-angle axioms of its tokens
        self.assumptions = []      # constraints stated by the harness (ranges, assume), as opposed to branch decisions

    def fresh_name(self, kind):
        n = self.counters.get(kind, 0)
        self.counters[kind] = n + 1
        return "%s!%d" % (kind, n)

    def new_tag(self, expr):
        t = self.next_tag
        self.next_tag += 1
        self.tags[t] = expr
        return t

    # ---- solver ---------------------------------------------------------
    def _solve(self, extra, timeout_ms=None):
        self.queries += 1
        t0 = time.time()
        to = timeout_ms or self.timeout_ms
        if self.nonlinear and not self.has_int:
            s = z3.SolverFor("QF_NRA")
        else:
            s = z3.Solver()
        s.set("timeout", to)
        s.add(*self.cons)
        s.add(*extra)
        if os.environ.get("SYMX_DUMP"):
            with open(os.environ["SYMX_DUMP"] + "_%d.smt2" % self.queries, "w") as f:
                f.write(s.to_smt2())
        r = s.check()
        dt = time.time() - t0
        self.solver_time += dt
        if r == z3.sat:
            self.q_sat += 1
            return "sat", s.model()
        if r == z3.unsat:
            self.q_unsat += 1
            return "unsat", None
        self.q_unknown += 1
        return "unknown", None

    def check(self, *extra, timeout_ms=None):
        return self._solve(list(extra), timeout_ms)

    def check_sliced(self, goal, timeout_ms=None):
        """query `cons restricted to the cone of influence of goal` AND goal.
        unsat is sound for the full path (fewer hypotheses); sat/unknown must be confirmed by the caller."""
        def vars_of(e, acc):
            todo = [e]
            seen = set()
            while todo:
                t = todo.pop()
                if t.get_id() in seen:
                    continue
                seen.add(t.get_id())
                if z3.is_const(t) and t.decl().kind() == z3.Z3_OP_UNINTERPRETED:
                    acc.add(t.decl().name())
                else:
                    todo.extend(t.children())
            return acc
        cvars = [vars_of(c, set()) for c in self.cons]
        need = vars_of(goal, set())
        chosen = [False] * len(self.cons)
        changed = True
        while changed:
            changed = False
            for i, vs in enumerate(cvars):
                if not chosen[i] and (vs & need):
                    chosen[i] = True
                    if not vs <= need:
                        need |= vs
                        changed = True
        sub = [c for c, ch, vs in zip(self.cons, chosen, cvars) if ch or len(vs) <= 1]
        if len(sub) == len(self.cons):
            return None
        self.queries += 1
        t0 = time.time()
        int_in_slice = any(n.startswith(("modk!", "s[", "len")) or "[" in n for n in need) or _mentions_int(sub + [goal])
        s = z3.SolverFor("QF_NRA") if (self.nonlinear and not int_in_slice) else z3.Solver()
        s.set("timeout", timeout_ms or self.timeout_ms)
        s.add(*sub)
        s.add(goal)
        r = s.check()
        self.solver_time += time.time() - t0
        if r == z3.unsat:
            self.q_unsat += 1
            return "unsat", None
        if r == z3.sat:
            self.q_sat += 1
            return "sat", s.model()
        self.q_unknown += 1
        return "unknown", None

    def check_abstract(self, goal, timeout_ms=2000):
        """linear abstraction: every non-linear sub-term (product of two non-constants, quotient by a non-constant,
        power) is replaced by a fresh real, equal terms by the same one; the rest is decided by simplex.  The
        abstraction has more models than the path, so `unsat` is sound; anything else is no answer."""
        table = {}
        cache = {}

        def ab(e):
            k = e.get_id()
            if k in cache:
                return cache[k][1]
            r = _ab(e)
            cache[k] = (e, r)
            return r

        def _ab(e):
            if z3.is_const(e) or z3.is_rational_value(e) or z3.is_int_value(e):
                return e
            kd = e.decl().kind()
            ch = e.children()
            nonlin = False
            if kd == z3.Z3_OP_MUL and sum(1 for c in ch if not (z3.is_rational_value(c) or z3.is_int_value(c))) >= 2:
                nonlin = True
            elif kd == z3.Z3_OP_DIV and not z3.is_rational_value(ch[1]):
                nonlin = True
            elif kd == z3.Z3_OP_POWER:
                nonlin = True
            if nonlin:
                key = e.sexpr()
                if key not in table:
                    table[key] = z3.Real("ab!%d" % len(table))
                return table[key]
            if not ch:
                return e
            return e.decl()(*[ab(c) for c in ch])
        self.queries += 1
        t0 = time.time()
        sol = z3.Solver()
        sol.set("timeout", timeout_ms)
        try:
            for c in self.cons:
                sol.add(ab(c))
            sol.add(ab(goal))
            r = sol.check()
        except z3.Z3Exception:
            r = z3.unknown
        self.solver_time += time.time() - t0
        if r == z3.unsat:
            self.q_unsat += 1
            return "unsat"
        self.queries -= 1       # no answer from the abstraction is not a solver verdict: not counted
        return "unknown"

    def check_param(self, goal, timeout_ms=None):
        """query with the (cos, sin) tokens of free angle atoms replaced by the rational parametrisation
        ((1-u^2)/(1+u^2), 2u/(1+u^2)) of the unit circle at the finest sub-angle of each atom; the circle and
        multiple-angle axioms become identities and are dropped.  The one point the parametrisation misses
        (finest token = (-1, 0)) is a separate query per atom.  Returns 'unsat' only if every case is unsat;
        a model of the parametrised case is a candidate ('sat', model); else 'unknown'."""
        groups = {}
        for k, (c, s) in self.angle_atoms.items():
            if z3.is_const(c) and c.decl().kind() == z3.Z3_OP_UNINTERPRETED and c.decl().name().startswith("cos!") and k in self.trig_ids:
                groups[k] = {1: (c, s)}
        for (k, q), tok in self.subatoms.items():
            if k in groups:
                groups[k][q] = tok
        chains = {}
        for k, g in groups.items():
            qf = max(g)
            if all(qf % q == 0 for q in g):
                chains[k] = (qf, g)
        if not chains:
            return None
        t_end = time.time() + (timeout_ms or self.timeout_ms) / 1000.0
        from . import ratfun
        import sympy

        def run(case):
            """case: atom key -> None (excluded point) for at most one atom, parametrised otherwise"""
            left = int((t_end - time.time()) * 1000)
            if left < 200:
                return "unknown", None
            dropped = set()
            subs = {}
            cl = ratfun.Clearer(subs)
            extra = []
            tokvals = []
            for i, (k, (qf, g)) in enumerate(chains.items()):
                if k in case:
                    fin = lambda m: ((sympy.Integer(-1)) ** m, sympy.Integer(0))
                    # the finest sub-angle is half a turn (mod a turn): the atom itself is qf * (2j + 1) half turns
                    atom = self.atom_terms.get(k)
                    if atom is not None:
                        extra.append(z3.Or([atom == qval(TAUQ / 2 * qf * (2 * j + 1)) for j in range(-8, 8)]))
                else:
                    uz = z3.Real("u!%d" % i)
                    u = cl.new_symbol(uz)
                    fin = lambda m, u=u: ratfun.circle_power(u, m)
                dropped |= set(self.trig_ids[k])
                for q, (c, s) in g.items():
                    pc, ps = fin(qf // q)
                    subs[c.decl().name()] = pc
                    subs[s.decl().name()] = ps
                    tokvals.append((c, pc))
                    tokvals.append((s, ps))
            self.queries += 1
            t0 = time.time()
            fs = []
            for c in self.cons:
                if c.get_id() in dropped:
                    continue
                try:
                    fs.append(cl.formula(c))
                except (ratfun.Unsupported, sympy.PolynomialError, RecursionError, AttributeError, TypeError, ZeroDivisionError):
                    pass        # a constraint that cannot be converted is left out (fewer hypotheses: sound for unsat)
            try:
                fs = fs + [cl.formula(goal)] + extra
            except (ratfun.Unsupported, sympy.PolynomialError, RecursionError, AttributeError, TypeError, ZeroDivisionError):
                self.q_unknown += 1
                return "unknown", None
            sol = z3.SolverFor("QF_NRA") if not (self.has_int and _mentions_int(fs)) else z3.Solver()
            left = int((t_end - time.time()) * 1000)
            sol.set("timeout", max(left, 200))
            sol.add(*fs)
            if os.environ.get("SYMX_DUMP"):
                with open(os.environ["SYMX_DUMP"] + "_param_%d.smt2" % self.queries, "w") as f:
                    f.write(sol.to_smt2())
            r = sol.check()
            self.solver_time += time.time() - t0
            if r == z3.unsat:
                self.q_unsat += 1
                return "unsat", None
            if r == z3.sat:
                self.q_sat += 1
                pairs = []
                mdl = sol.model()
                if os.environ.get("SYMX_DEBUG"):
                    gz = fs[len(fs) - len(extra) - 1]
                    print("CLEARED GOAL", str(gz)[:3000])
                    def _w(e, d=0):
                        if z3.is_bool(e) and d < 5:
                            print(" " * d, e.decl().name(), mdl.eval(e, model_completion=True))
                            for c in e.children():
                                _w(c, d + 1)
                    _w(gz)
                symval = {}
                for name, (sy, zc) in cl.syms.items():
                    if name.startswith("u!"):
                        symval[sy] = z3num_to_float(mdl.eval(zc, model_completion=True))
                for tok, val in tokvals:
                    fv = _float(sympy.sympify(val).evalf(30, subs=symval))
                    pairs.append((tok, qval(Fraction(fv))))
                return "sat", ParamModel(mdl, pairs)
            self.q_unknown += 1
            return "unknown", None

        # every combination of atoms at the point the parametrisation misses / parametrised
        import itertools
        keys = list(chains)
        if len(keys) > 5:
            return None
        for nex in range(len(keys), -1, -1):
            for combo in itertools.combinations(keys, nex):
                r, m = run({k: None for k in combo})
                if os.environ.get("SYMX_DEBUG"):
                    print("param case", len(combo), r, round(time.time() - (t_end - (timeout_ms or self.timeout_ms) / 1000.0), 1), flush=True)
                if r == "sat":
                    return "sat", m
                if r != "unsat":
                    return "unknown", None
        return "unsat", None

    def add(self, *cs):
        """add axioms / assumptions (invalidates the cached model unless it satisfies them)"""
        for c in cs:
            self.cons.append(c)
        if self.model is not None:
            try:
                ok = all(z3.is_true(self.model.eval(c, model_completion=False)) for c in cs)
            except z3.Z3Exception:
                ok = False
            if not ok:
                self.model = None

    def assume(self, c):
        c = z3.simplify(c) if z3.is_expr(c) else z3.BoolVal(bool(c))
        if z3.is_true(c):
            return
        if z3.is_false(c):
            raise PathAbort("assumption false")
        self.assumptions.append(c)
        self.add(c)
        # infeasibility is discovered at the next branch or at the claim's vacuity check

    def branch(self, cond):
        if isinstance(cond, bool):
            return cond
        cond = z3.simplify(cond)
        if z3.is_true(cond):
            return True
        if z3.is_false(cond):
            return False
        self.decisions += 1
        i = len(self.trace)
        if i < len(self.prefix):
            taken = self.prefix[i]
            self.trace.append(taken)
            self.cons.append(cond if taken else z3.Not(cond))
            if i + 1 == len(self.prefix):
                self.model = self.prefix_model
            return taken
        if self.loop_budget is not None:
            self.loop_budget -= 1
            if self.loop_budget < 0:
                raise Unsupported("decision budget exhausted")
        if self.shadow is not None:
            # seeded path: follow the branch the seed input takes (its feasibility is witnessed by the seed); the
            # other side is not explored from here
            sv = self.shadow.decide(cond)
            if sv is not None:
                self.trace.append(sv)
                self.cons.append(cond if sv else z3.Not(cond))
                return sv
        ncond = z3.Not(cond)
        m = self.model
        mt = None
        if m is not None:
            try:
                v = m.eval(cond, model_completion=True)
                if z3.is_true(v):
                    mt = True
                elif z3.is_false(v):
                    mt = False
            except z3.Z3Exception:
                mt = None
        if mt is True:
            rt, modt = "sat", m
            rf, modf = self._solve([ncond])
        elif mt is False:
            rf, modf = "sat", m
            rt, modt = self._solve([cond])
        else:
            rt, modt = self._solve([cond])
            if rt == "unsat":
                rf, modf = "sat?", None  # path feasible => other side feasible (if path was)
            else:
                rf, modf = self._solve([ncond])
        can_t = rt != "unsat"
        can_f = rf != "unsat"
        if rt == "unknown" or rf == "unknown":
            self.unconfirmed = True
        if can_t and can_f:
            self.todo.append((self.trace + [False], modf))
            taken, self.model = True, modt
        elif can_t:
            taken, self.model = True, modt
        elif can_f:
            taken, self.model = False, modf
        else:
            raise PathAbort("infeasible")
        self.trace.append(taken)
        self.cons.append(cond if taken else ncond)
        return taken

    def concretize_int(self, term, lo, hi, what="int"):
        """fork over the integer values lo..hi of an Int/Real term"""
        for k in range(lo, hi + 1):
            if self.branch(term == k):
                return k
        raise Unsupported("%s outside %d..%d" % (what, lo, hi))

    # ---- driver ---------------------------------------------------------
    def run_all(self, fn):
        """fn(ex) executes one path.  Returns list of PathResult."""
        results = []
        self.todo = [([], None)]
        while self.todo:
            if len(results) >= self.max_paths:
                results.append(PathResult([], "truncated", "max_paths", None))
                break
            prefix, pmodel = self.todo.pop()
            self.reset_path()
            self.prefix = prefix
            self.prefix_model = pmodel
            global EX
            EX = self
            try:
                out = ("ok", fn(self))
            except PathAbort as e:
                out = ("abort", str(e))
            except Unsupported as e:
                out = ("unsupported", str(e))
            except RecursionError as e:
                out = ("exc", e)
            except Exception as e:  # library exception on this path
                out = ("exc", e)
            results.append(PathResult(list(self.trace), out[0], out[1], self))
        return results


class ShadowModel:
    """values of every solver variable of a path at a concrete seed input: inputs from the seed, internal variables
    (tokens, roots, inverse-trig angles, modulo parts) from their defining terms, in double precision.  Used only to
    choose which branch a seeded path follows."""

    def __init__(self, ex):
        self.ex = ex
        self.vals = {}

    def _value(self, const):
        name = const.decl().name()
        if name in self.vals:
            return self.vals[name]
        seed = self.ex.seed
        if name in seed:
            v = seed[name]
        else:
            d = self.ex.shadow_defs.get(name)
            if d is None:
                raise KeyError(name)
            if d[0] == "sqrt":
                v = math.sqrt(max(self.num(d[1]), 0.0))
            elif d[0] == "cos":
                v = math.cos(self.num(d[1]))
            elif d[0] == "sin":
                v = math.sin(self.num(d[1]))
            elif d[0] == "angle":
                v = math.atan2(self.num(d[2]), self.num(d[1]))
            elif d[0] == "modk":
                v = int(math.floor(self.num(d[1]) / self.num(d[2])))
            elif d[0] == "modr":
                a, m = self.num(d[1]), self.num(d[2])
                v = a - m * math.floor(a / m)
            else:
                raise KeyError(name)
        self.vals[name] = v
        return v

    def _subst(self, t):
        todo, seen, pairs = [t], set(), []
        while todo:
            e = todo.pop()
            if e.get_id() in seen:
                continue
            seen.add(e.get_id())
            if z3.is_const(e) and e.decl().kind() == z3.Z3_OP_UNINTERPRETED:
                v = self._value(e)
                if z3.is_int(e):
                    pairs.append((e, z3.IntVal(_int(v))))
                else:
                    pairs.append((e, qval(Fraction(_float(v)))))
            else:
                todo.extend(e.children())
        return z3.simplify(z3.substitute(t, *pairs)) if pairs else z3.simplify(t)

    def num(self, t):
        if not z3.is_expr(t):
            return _float(t)
        return z3num_to_float(self._subst(t))

    def decide(self, cond):
        try:
            v = self._subst(cond)
        except (KeyError, z3.Z3Exception, ValueError, ZeroDivisionError, OverflowError):
            return None
        if z3.is_true(v):
            return True
        if z3.is_false(v):
            return False
        return None


class ParamModel:
    """model of a parametrised query, presented as a model of the original one (token values computed from the
    parameters)"""

    def __init__(self, model, pairs):
        self.m = model
        self.pairs = pairs

    def eval(self, t, model_completion=False):
        return self.m.eval(z3.substitute(t, *self.pairs) if self.pairs else t, model_completion=model_completion)


class PathResult:
    def __init__(self, trace, kind, value, ex):
        self.trace = trace
        self.kind = kind
        self.value = value
        self.unconfirmed = ex.unconfirmed if ex is not None else False
        self.tb = None
        if kind == "exc":
            import traceback
            self.tb = traceback.extract_tb(value.__traceback__)


EX = None  # current explorer


# ---------------------------------------------------------------------------
# symbolic reals
# ---------------------------------------------------------------------------

def lift(v):
    """python number -> z3 Real term"""
    if isinstance(v, SymReal):
        return v.e
    if isinstance(v, SymInt):
        return z3.ToReal(v.e) if v.is_int_sort else v.as_real()
    if isinstance(v, bool):
        return z3.RealVal(_int(v))
    if isinstance(v, _int):
        return z3.RealVal(v)
    if isinstance(v, _float):
        if v != v or v in (_float("inf"), -_float("inf")):
            raise Unsupported("non-finite constant")
        return qval(Fraction(v))
    if isinstance(v, Fraction):
        return qval(v)
    raise Unsupported("lift %r" % type(v))


def _is_const(e):
    return z3.is_rational_value(e) or z3.is_int_value(e)


class SymReal(_float):
    """float subclass: C double = tag, .e = z3 Real term"""

    def __new__(cls, e):
        tag = EX.new_tag(e)
        o = _float.__new__(cls, tag)
        o.e = e
        return o

    def _bin(s, o, f, nl=False):
        if isinstance(o, _complex):
            return f(SymComplex(s, 0.0), SymComplex.of(o))
        try:
            oe = lift(o)
        except Unsupported:
            return NotImplemented
        if nl and not _is_const(oe) and not _is_const(s.e):
            EX.nonlinear = True
        return SymReal(f(s.e, oe))

    def __add__(s, o): return s._bin(o, lambda a, b: a + b)
    __radd__ = __add__
    def __sub__(s, o): return s._bin(o, lambda a, b: a - b)
    def __rsub__(s, o): return s._bin(o, lambda a, b: b - a)
    def __mul__(s, o): return s._bin(o, lambda a, b: a * b, nl=True)
    __rmul__ = __mul__

    def __truediv__(s, o):
        if isinstance(o, _complex):
            return SymComplex(s, 0.0) / SymComplex.of(o)
        try:
            d = lift(o)
        except Unsupported:
            return NotImplemented
        if EX.branch(d == 0):
            raise ZeroDivisionError("float division by zero")
        if not _is_const(d):
            EX.nonlinear = True
        return SymReal(s.e / d)

    def __rtruediv__(s, o):
        try:
            n = lift(o)
        except Unsupported:
            return NotImplemented
        if EX.branch(s.e == 0):
            raise ZeroDivisionError("float division by zero")
        EX.nonlinear = True
        return SymReal(n / s.e)

    def __floordiv__(s, o):
        q = s / o
        return sym_floor(q)

    def __neg__(s): return SymReal(-s.e)
    def __pos__(s): return s
    def __abs__(s): return SymReal(z3.If(s.e >= 0, s.e, -s.e))

    def __pow__(s, o, m=None):
        if isinstance(o, _int) and not isinstance(o, (SymReal, SymInt, bool)) and 0 <= o <= 6:
            r = z3.RealVal(1)
            for _ in range(o):
                r = r * s.e
            if o > 1:
                EX.nonlinear = True
            return SymReal(r)
        if isinstance(o, _float) and not isinstance(o, SymReal) and o == 0.5:
            return sym_sqrt(s)
        if isinstance(o, _float) and not isinstance(o, SymReal) and o == 2.0:
            EX.nonlinear = True
            return SymReal(s.e * s.e)
        raise Unsupported("pow")

    def __rpow__(s, o, m=None):
        raise Unsupported("rpow")

    def __mod__(s, o):
        if isinstance(o, (SymReal, SymInt)):
            raise Unsupported("mod by symbolic")
        m = lift(o)
        k = z3.Int(EX.fresh_name("modk"))
        r = z3.Real(EX.fresh_name("modr"))
        EX.shadow_defs[k.decl().name()] = ("modk", s.e, m)
        EX.shadow_defs[r.decl().name()] = ("modr", s.e, m)
        EX.has_int = True
        EX.add(s.e == z3.ToReal(k) * m + r, r >= 0, r < m)
        return SymReal(r)

    def __rmod__(s, o):
        raise Unsupported("rmod")

    def __divmod__(s, o):
        raise Unsupported("divmod")

    # comparisons fork
    def _cmp(s, o, f, dflt):
        try:
            oe = lift(o)
        except Unsupported:
            return dflt
        return EX.branch(f(s.e, oe))

    def __lt__(s, o): return s._cmp(o, lambda a, b: a < b, NotImplemented)
    def __le__(s, o): return s._cmp(o, lambda a, b: a <= b, NotImplemented)
    def __gt__(s, o): return s._cmp(o, lambda a, b: a > b, NotImplemented)
    def __ge__(s, o): return s._cmp(o, lambda a, b: a >= b, NotImplemented)
    def __eq__(s, o): return s._cmp(o, lambda a, b: a == b, False)
    def __ne__(s, o): return s._cmp(o, lambda a, b: a != b, True)
    def __bool__(s): return EX.branch(s.e != 0)
    def __hash__(s): return id(s)

    def __float__(s): return s
    def __int__(s): return sym_int(s)
    def __trunc__(s): return sym_int(s)
    def __index__(s): raise Unsupported("index of symbolic")
    def __round__(s, n=None):
        if n is not None:
            raise Unsupported("round(x, n)")
        return sym_round(s)
    def __ceil__(s): return sym_ceil(s)
    def __floor__(s): return sym_floor(s)

    def __repr__(s): return str(_int(_float.__trunc__(s)))
    __str__ = __repr__
    def __copy__(s): return s
    def __deepcopy__(s, memo): return s
    def __reduce__(s): raise Unsupported("pickle of symbolic")

    @property
    def real(s): return s
    @property
    def imag(s): return 0.0
    def conjugate(s): return s
    def is_integer(s): raise Unsupported("is_integer")
    def as_integer_ratio(s): raise Unsupported("as_integer_ratio")
    def hex(s): raise Unsupported("hex")


def mkreal(e):
    return SymReal(e)


_complex = builtins.complex


class SymComplex(_complex):
    """complex subclass whose parts are SymReal / plain numbers (svg.path heritage: Point arithmetic through complex)"""

    def __new__(cls, re, im):
        o = _complex.__new__(cls, 0.0, 0.0)
        o.re, o.im = re, im
        return o

    @property
    def real(s): return s.re
    @property
    def imag(s): return s.im

    @staticmethod
    def of(v):
        if isinstance(v, SymComplex):
            return v
        if isinstance(v, _complex):
            return SymComplex(v.real, v.imag)
        if isinstance(v, (SymReal, SymInt, _int, _float)):
            return SymComplex(v, 0.0)
        return None

    def __add__(s, o):
        o = SymComplex.of(o)
        return NotImplemented if o is None else SymComplex(s.re + o.re, s.im + o.im)
    __radd__ = __add__
    def __sub__(s, o):
        o = SymComplex.of(o)
        return NotImplemented if o is None else SymComplex(s.re - o.re, s.im - o.im)
    def __rsub__(s, o):
        o = SymComplex.of(o)
        return NotImplemented if o is None else SymComplex(o.re - s.re, o.im - s.im)
    def __mul__(s, o):
        o = SymComplex.of(o)
        return NotImplemented if o is None else SymComplex(s.re * o.re - s.im * o.im, s.re * o.im + s.im * o.re)
    __rmul__ = __mul__
    def __truediv__(s, o):
        o = SymComplex.of(o)
        if o is None:
            return NotImplemented
        d = o.re * o.re + o.im * o.im
        return SymComplex((s.re * o.re + s.im * o.im) / d, (s.im * o.re - s.re * o.im) / d)
    def __neg__(s): return SymComplex(-s.re, -s.im)
    def __abs__(s): return sym_hypot(s.re, s.im)
    def conjugate(s): return SymComplex(s.re, -s.im)
    def __complex__(s): return s
    def __eq__(s, o):
        o = SymComplex.of(o)
        return False if o is None else bool(s.re == o.re) and bool(s.im == o.im)
    def __ne__(s, o): return not s.__eq__(o)
    def __hash__(s): return id(s)
    def __repr__(s): return "SymComplex(%r, %r)" % (s.re, s.im)
    def __pow__(s, o, m=None): raise Unsupported("complex pow")
    def __bool__(s): return bool(s.re != 0) or bool(s.im != 0)


class _ComplexMeta(type):
    def __instancecheck__(cls, inst):
        return isinstance(inst, _complex)

    def __subclasscheck__(cls, sub):
        return issubclass(sub, _complex)


class symcomplex(metaclass=_ComplexMeta):
    """replacement for the module-global name `complex`"""

    def __new__(cls, *args):
        return sym_complex(*args)


def sym_complex(*args):
    if len(args) == 1:
        a = args[0]
        if isinstance(a, SymComplex):
            return a
        if hasattr(a, "__complex__") and not isinstance(a, (_complex, _int, _float, str)):
            r = a.__complex__()
            return r
        if isinstance(a, (SymReal, SymInt)):
            return SymComplex(a, 0.0)
        return _complex(a)
    if len(args) == 2 and any(isinstance(a, (SymReal, SymInt)) for a in args):
        return SymComplex(args[0], args[1])
    return _complex(*args)


def fresh_real(name):
    v = z3.Real(name)
    EX.inputs[name] = v
    return SymReal(v)


class _FloatMeta(type):
    def __instancecheck__(cls, inst):
        return isinstance(inst, _float)

    def __subclasscheck__(cls, sub):
        return issubclass(sub, _float)


class symfloat(metaclass=_FloatMeta):
    """replacement for the module-global name `float`"""

    def __new__(cls, v=0.0):
        if isinstance(v, SymReal):
            return v if type(v) is SymReal else SymReal(v.e)
        if isinstance(v, SymInt):
            return SymReal(lift(v))
        if isinstance(v, str):
            from . import symstr
            if isinstance(v, symstr.SymStr) or symstr.has_placeholder(v):
                return symstr.float_of_symstr(symstr.SymStr(symstr.lift_chars(v)))
        r = _float(v)
        if EX is not None and EX.tags:
            if r in EX.tags and r == _int(r):
                return _retag(_int(r))
            if -r in EX.tags and r == _int(r):
                return -_retag(_int(-r))
        return r

    fromhex = _float.fromhex


def _retag(t):
    e = EX.tags[t]
    if z3.is_int(e):
        e = z3.ToReal(e)
    o = _float.__new__(SymReal, t)
    o.e = e
    return o


# ---------------------------------------------------------------------------
# integers (Int sort) -- results of int()/round()/ceil(); colour packings use
# SymInt with bit operations encoded over bit-vectors on demand (see symint.py)
# ---------------------------------------------------------------------------

class SymInt(_int):
    """int subclass with z3 Int term"""
    is_int_sort = True

    def __new__(cls, e):
        o = _int.__new__(cls, EX.new_tag(e))
        o.e = e
        return o

    def as_real(s): return z3.ToReal(s.e)

    def _bin(s, o, f):
        if isinstance(o, SymInt):
            return SymInt(f(s.e, o.e))
        if isinstance(o, bool):
            return SymInt(f(s.e, z3.IntVal(_int(o))))
        if isinstance(o, _int):
            return SymInt(f(s.e, z3.IntVal(o)))
        if isinstance(o, _float):
            return NotImplemented if not isinstance(o, SymReal) else SymReal(f(z3.ToReal(s.e), o.e))
        return NotImplemented

    def _rbin(s, o, f):
        return s._bin(o, lambda a, b: f(b, a))

    def __add__(s, o):
        r = s._bin(o, lambda a, b: a + b)
        return s._fl(o, lambda a, b: a + b) if r is NotImplemented else r
    __radd__ = __add__
    def __sub__(s, o):
        r = s._bin(o, lambda a, b: a - b)
        return s._fl(o, lambda a, b: a - b) if r is NotImplemented else r
    def __rsub__(s, o):
        r = s._bin(o, lambda a, b: b - a)
        return s._fl(o, lambda a, b: b - a) if r is NotImplemented else r
    def __mul__(s, o):
        if isinstance(o, (SymInt, SymReal)):
            EX.nonlinear = True
        r = s._bin(o, lambda a, b: a * b)
        return s._fl(o, lambda a, b: a * b) if r is NotImplemented else r
    __rmul__ = __mul__

    def _fl(s, o, f):
        if isinstance(o, _float):
            return SymReal(f(z3.ToReal(s.e), lift(o)))
        return NotImplemented

    def __truediv__(s, o): return SymReal(z3.ToReal(s.e)) / o
    def __rtruediv__(s, o): return o / SymReal(z3.ToReal(s.e)) if isinstance(o, SymReal) else SymReal(lift(o)) / SymReal(z3.ToReal(s.e))
    def __neg__(s): return SymInt(-s.e)
    def __pos__(s): return s
    def __abs__(s): return SymInt(z3.If(s.e >= 0, s.e, -s.e))
    def __float__(s): return SymReal(z3.ToReal(s.e))
    def __int__(s): return s
    def __index__(s): raise Unsupported("index of symbolic int")
    def __round__(s, n=None): return s

    def _cmp(s, o, f, dflt):
        if isinstance(o, SymInt):
            return EX.branch(f(s.e, o.e))
        if isinstance(o, (SymReal,)):
            return EX.branch(f(z3.ToReal(s.e), o.e))
        if isinstance(o, bool):
            return EX.branch(f(s.e, z3.IntVal(_int(o))))
        if isinstance(o, _int):
            return EX.branch(f(s.e, z3.IntVal(o)))
        if isinstance(o, _float):
            return EX.branch(f(z3.ToReal(s.e), lift(o)))
        return dflt

    def __lt__(s, o): return s._cmp(o, lambda a, b: a < b, NotImplemented)
    def __le__(s, o): return s._cmp(o, lambda a, b: a <= b, NotImplemented)
    def __gt__(s, o): return s._cmp(o, lambda a, b: a > b, NotImplemented)
    def __ge__(s, o): return s._cmp(o, lambda a, b: a >= b, NotImplemented)
    def __eq__(s, o): return s._cmp(o, lambda a, b: a == b, False)
    def __ne__(s, o): return s._cmp(o, lambda a, b: a != b, True)
    def __bool__(s): return EX.branch(s.e != 0)
    def __hash__(s): return id(s)
    def __repr__(s): return str(_int.__int__(s))
    __str__ = __repr__
    def __copy__(s): return s
    def __deepcopy__(s, memo): return s

    # bit operations: only with concrete power-of-two style operands (shifts/masks)
    def __lshift__(s, o):
        if isinstance(o, _int) and not isinstance(o, SymInt):
            return SymInt(s.e * (1 << o))
        raise Unsupported("shift by symbolic")
    def __rshift__(s, o):
        if isinstance(o, _int) and not isinstance(o, SymInt):
            EX.has_int = True
            return SymInt(s.e / (1 << o))   # Int division in z3 is floor for positive divisor
        raise Unsupported("shift by symbolic")
    def __and__(s, o):
        if isinstance(o, _int) and not isinstance(o, SymInt):
            return s._mask(o)
        raise Unsupported("and symbolic")
    __rand__ = __and__
    def _mask(s, m):
        # m must be a contiguous block of ones 2^a * (2^b - 1), or its complement handled by caller
        if m < 0:
            # ~mask: x & ~k == x - (x & k)
            k = ~m
            return SymInt(s.e - s._mask(k).e)
        if m == 0:
            return SymInt(z3.IntVal(0))
        a = (m & -m).bit_length() - 1
        b = m >> a
        if b & (b + 1) != 0:
            raise Unsupported("non-contiguous mask")
        EX.has_int = True
        lowdiv = s.e / (1 << a)
        field = lowdiv % (b + 1)
        return SymInt(field * (1 << a))
    def __or__(s, o):
        """x | y == x + y when the operands occupy disjoint bit fields; that is established by the
        solver on the current path: for some k, one operand is a multiple of 2^k and the other lies in [0, 2^k)"""
        if isinstance(o, SymInt):
            oe = o.e
        elif isinstance(o, _int):
            oe = z3.IntVal(_int(o))
        else:
            return NotImplemented
        EX.has_int = True
        for k in (8, 16, 24, 32, 4, 1, 2, 12, 20, 28, 40, 48, 56, 64):
            m = 1 << k
            for hi, lo in ((s.e, oe), (oe, s.e)):
                cond = z3.And(hi % m == 0, lo >= 0, lo < m)
                r, _m = EX.check(z3.Not(cond))
                if r == "unsat":
                    return SymInt(hi + lo)
        raise Unsupported("or of symbolic ints with overlapping / unknown bit fields")
    __ror__ = __or__
    def __invert__(s): return SymInt(-s.e - 1)


def sym_int(x):
    """int(x): truncation toward zero"""
    if isinstance(x, SymInt):
        return x
    if not isinstance(x, SymReal):
        return _int(x)
    EX.has_int = True
    return SymInt(z3.If(x.e >= 0, z3.ToInt(x.e), -z3.ToInt(-x.e)))


def sym_floor(x):
    if isinstance(x, SymInt):
        return x
    if not isinstance(x, SymReal):
        return math.floor(x)
    EX.has_int = True
    return SymInt(z3.ToInt(x.e))


def sym_ceil(x):
    if isinstance(x, SymInt):
        return x
    if not isinstance(x, SymReal):
        return math.ceil(x)
    rng = getattr(EX, "ceil_range", None)
    if rng is not None:
        # fork over the integer values (no Int sort in the path condition)
        for k in range(rng[0], rng[1] + 1):
            if EX.branch(z3.And(x.e > k - 1, x.e <= k)):
                return k
        raise Unsupported("ceil outside %d..%d" % tuple(rng))
    EX.has_int = True
    return SymInt(-z3.ToInt(-x.e))


def sym_round(x):
    """round half to even"""
    if isinstance(x, SymInt):
        return x
    EX.has_int = True
    f = z3.ToInt(x.e)
    fr = x.e - z3.ToReal(f)
    half = qval(Fraction(1, 2))
    return SymInt(z3.If(fr < half, f, z3.If(fr > half, f + 1, z3.If(f % 2 == 0, f, f + 1))))


class _IntMeta(type):
    def __instancecheck__(cls, inst):
        return isinstance(inst, _int)

    def __subclasscheck__(cls, sub):
        return issubclass(sub, _int)


class symint(metaclass=_IntMeta):
    """replacement for the module-global name `int`"""

    def __new__(cls, v=0, base=None):
        from . import symstr
        if isinstance(v, str) and (isinstance(v, symstr.SymStr) or symstr.has_placeholder(v)):
            return symstr.int_of_symstr(symstr.SymStr(symstr.lift_chars(v)), 10 if base is None else base)
        if base is not None:
            return _int(v, base)
        if isinstance(v, (SymReal, SymInt)):
            return sym_int(v)
        if isinstance(v, str) and EX is not None and EX.tags:
            try:
                r = _int(v)
            except ValueError:
                raise
            if r in EX.tags:
                return sym_int(_retag(r))
            return r
        return _int(v)


# ---------------------------------------------------------------------------
# math shims
# ---------------------------------------------------------------------------

def _key(e):
    return z3.simplify(e).sexpr()


def syntactic_nonneg(e):
    """cheap test: sum of monomials with positive coefficients and even powers"""
    e = z3.simplify(e, som=True)

    def mono_ok(m):
        if z3.is_rational_value(m):
            return m.numerator_as_long() >= 0
        if z3.is_app_of(m, z3.Z3_OP_MUL):
            ok = True
            counts = {}
            for ch in m.children():
                if z3.is_rational_value(ch):
                    if ch.numerator_as_long() < 0:
                        ok = False
                elif z3.is_app_of(ch, z3.Z3_OP_POWER):
                    b, p = ch.children()
                    if not (z3.is_rational_value(p) and p.denominator_as_long() == 1):
                        return False
                    counts[b.sexpr()] = counts.get(b.sexpr(), 0) + p.numerator_as_long()
                else:
                    counts[ch.sexpr()] = counts.get(ch.sexpr(), 0) + 1
            return ok and all(v % 2 == 0 for v in counts.values())
        if z3.is_app_of(m, z3.Z3_OP_POWER):
            b, p = m.children()
            return z3.is_rational_value(p) and p.denominator_as_long() == 1 and p.numerator_as_long() % 2 == 0
        return False

    if z3.is_app_of(e, z3.Z3_OP_ADD):
        return all(mono_ok(m) for m in e.children())
    return mono_ok(e)


def _nonneg_struct(e, depth=0):
    """structural non-negativity: abs patterns If(c>=0,c,-c), sums/products/quotients of non-negative terms, even powers, sqrt variables"""
    if depth > 6:
        return False
    if z3.is_rational_value(e):
        return e.numerator_as_long() >= 0
    if z3.is_const(e) and e.decl().name().startswith("sqrt!"):
        return True
    k = e.decl().kind() if z3.is_app(e) else None
    ch = e.children() if z3.is_app(e) else []
    if k == z3.Z3_OP_ITE and len(ch) == 3:
        c, a, b = ch
        # If(x >= 0, x, -x)
        try:
            if z3.is_app_of(c, z3.Z3_OP_GE) and c.children()[1].eq(z3.RealVal(0)) and c.children()[0].eq(a) and z3.simplify(a + b).eq(z3.RealVal(0)):
                return True
        except Exception:
            pass
        return _nonneg_struct(a, depth + 1) and _nonneg_struct(b, depth + 1)
    if k in (z3.Z3_OP_ADD, z3.Z3_OP_MUL):
        if k == z3.Z3_OP_MUL:
            # even multiplicities of identical factors, or all factors non-negative
            seen = {}
            for c in ch:
                seen[c.sexpr()] = seen.get(c.sexpr(), 0) + 1
            if all(v % 2 == 0 for v in seen.values()):
                return True
        return all(_nonneg_struct(c, depth + 1) for c in ch)
    if k == z3.Z3_OP_DIV:
        return _nonneg_struct(ch[0], depth + 1) and _nonneg_struct(ch[1], depth + 1)
    if k == z3.Z3_OP_POWER and z3.is_rational_value(ch[1]) and ch[1].denominator_as_long() == 1 and ch[1].numerator_as_long() % 2 == 0:
        return True
    return syntactic_nonneg(e)


def sym_sqrt(x):
    if isinstance(x, SymInt):
        x = SymReal(lift(x))
    if not isinstance(x, SymReal):
        return math.sqrt(x)
    k = _key(x.e)
    if k in EX.sqrtcache:
        return SymReal(EX.sqrtcache[k])
    se = z3.simplify(x.e)
    if z3.is_rational_value(se):
        fr = Fraction(se.numerator_as_long(), se.denominator_as_long())
        if fr < 0:
            raise ValueError("math domain error")
        import math as _m
        n, d = _m.isqrt(fr.numerator), _m.isqrt(fr.denominator)
        if n * n == fr.numerator and d * d == fr.denominator:
            return SymReal(qval(Fraction(n, d)))
    root = _exact_sqrt_mod_trig(se)
    if root is not None:
        EX.nonlinear = True
        r = z3.If(root >= 0, root, -root)
        EX.sqrtcache[k] = r
        return SymReal(r)
    if not syntactic_nonneg(x.e) and not _nonneg_struct(x.e) and EX.branch(x.e < 0):
        raise ValueError("math domain error")
    y = z3.Real(EX.fresh_name("sqrt"))
    EX.nonlinear = True
    EX.shadow_defs[y.decl().name()] = ("sqrt", x.e)
    EX.add(y >= 0, y * y == x.e)
    EX.sqrtcache[k] = y
    return SymReal(y)


def _z3_to_sympy(e, syms):
    import sympy
    if z3.is_rational_value(e):
        return sympy.Rational(e.numerator_as_long(), e.denominator_as_long())
    if z3.is_int_value(e):
        return sympy.Integer(e.as_long())
    if z3.is_const(e) and e.decl().kind() == z3.Z3_OP_UNINTERPRETED:
        name = e.decl().name()
        if name not in syms:
            syms[name] = (sympy.Symbol("v%d" % len(syms), real=True), e)
        return syms[name][0]
    k = e.decl().kind()
    ch = e.children()
    if k == z3.Z3_OP_ADD:
        return sum((_z3_to_sympy(c, syms) for c in ch), sympy.Integer(0))
    if k == z3.Z3_OP_MUL:
        r = sympy.Integer(1)
        for c in ch:
            r = r * _z3_to_sympy(c, syms)
        return r
    if k == z3.Z3_OP_SUB:
        r = _z3_to_sympy(ch[0], syms)
        for c in ch[1:]:
            r = r - _z3_to_sympy(c, syms)
        return r
    if k == z3.Z3_OP_UMINUS:
        return -_z3_to_sympy(ch[0], syms)
    if k == z3.Z3_OP_POWER and z3.is_rational_value(ch[1]) and ch[1].denominator_as_long() == 1 and 0 <= ch[1].numerator_as_long() <= 8:
        return _z3_to_sympy(ch[0], syms) ** ch[1].numerator_as_long()
    if k == z3.Z3_OP_DIV and z3.is_rational_value(ch[1]):
        return _z3_to_sympy(ch[0], syms) / _z3_to_sympy(ch[1], syms)
    raise ValueError("not a polynomial term")


def _sympy_to_z3(p, syms_by_symbol):
    import sympy
    if p.is_Rational:
        return qval(Fraction(int(p.p), int(p.q)))
    if p.is_Symbol:
        return syms_by_symbol[p]
    if p.is_Add:
        r = None
        for a in p.args:
            t = _sympy_to_z3(a, syms_by_symbol)
            r = t if r is None else r + t
        return r
    if p.is_Mul:
        r = None
        for a in p.args:
            t = _sympy_to_z3(a, syms_by_symbol)
            r = t if r is None else r * t
        return r
    if p.is_Pow and p.exp.is_Integer and p.exp > 0:
        b = _sympy_to_z3(p.base, syms_by_symbol)
        r = b
        for _ in range(int(p.exp) - 1):
            r = r * b
        return r
    raise ValueError("cannot convert %r" % (p,))


def _exact_sqrt_mod_trig(e):
    """if e is, modulo the identities c_i^2 + s_i^2 = 1 of the angle tokens on this path, the square of a
    polynomial p, return p (a z3 term); else None.  Sound: the identities are constraints of the path."""
    if not EX.angle_atoms or _is_const(e):
        return None
    try:
        import sympy
        syms = {}
        expr = sympy.expand(_z3_to_sympy(z3.simplify(e, som=True), syms))
        if len(syms) > 12:
            return None
        ideal = []
        gens = []
        for (c, s) in list(EX.angle_atoms.values()) + list(EX.subatoms.values()):
            if z3.is_const(c) and z3.is_const(s) and c.decl().name() in syms and s.decl().name() in syms:
                cs, ss = syms[c.decl().name()][0], syms[s.decl().name()][0]
                ideal.append(cs ** 2 + ss ** 2 - 1)
                gens += [ss, cs]
        if not ideal:
            return None
        others = [v[0] for v in syms.values() if v[0] not in gens]
        _, rem = sympy.reduced(expr, ideal, *(gens + others))
        coeff, factors = sympy.factor_list(rem)
        if coeff < 0 or any(m % 2 for _, m in factors):
            return None
        cr = sympy.sqrt(coeff)
        if not cr.is_Rational:
            return None
        root = cr
        for b, m in factors:
            root = root * b ** (m // 2)
        by_symbol = {v[0]: v[1] for v in syms.values()}
        return _sympy_to_z3(sympy.expand(root), by_symbol)
    except Exception:
        return None


def sym_hypot(x, y):
    if not isinstance(x, (SymReal, SymInt)) and not isinstance(y, (SymReal, SymInt)):
        return math.hypot(x, y)
    x = x if isinstance(x, SymReal) else SymReal(lift(x))
    return sym_sqrt(x * x + y * y)


# ---- angles -----------------------------------------------------------------
# An angle term is decomposed into  sum_i q_i * atom_i + const  (q_i rational).
# Every atom carries a token (c, s) with c^2+s^2 = 1; rational multiples use
# sub-atoms related by the multiple-angle formulas; the constant must be a
# multiple of tau/4 (exact rotation of the token) or becomes an atom itself.

def linear_form(e):
    """-> (dict key->(atom, Fraction), const Fraction) or None"""
    e = z3.simplify(e, som=True)
    e = _cancel_nonlinear(e)
    terms = e.children() if z3.is_app_of(e, z3.Z3_OP_ADD) else [e]
    coeffs = {}
    const = Fraction(0)
    for t in terms:
        if z3.is_rational_value(t):
            const += Fraction(t.numerator_as_long(), t.denominator_as_long())
            continue
        q = Fraction(1)
        atom = t
        if z3.is_app_of(t, z3.Z3_OP_MUL):
            ch = t.children()
            nums = [c for c in ch if z3.is_rational_value(c)]
            rest = [c for c in ch if not z3.is_rational_value(c)]
            for c in nums:
                q *= Fraction(c.numerator_as_long(), c.denominator_as_long())
            if len(rest) == 1:
                atom = rest[0]
            else:
                atom = z3.Product(*rest) if rest else None
            if atom is None:
                const += q
                continue
        k = atom.sexpr()
        if k in coeffs:
            coeffs[k] = (atom, coeffs[k][1] + q)
        else:
            coeffs[k] = (atom, q)
    # a coefficient one float rounding away from a small rational (e.g. fl(360/tau) * tau / 360) is that rational
    # (exact reals stand for the floats; same convention as for constants within 1e-12 of a quarter turn)
    for k, (atom, q) in list(coeffs.items()):
        if q.denominator > 12 and q != 0:
            sn = q.limit_denominator(12)
            if sn != 0 and abs(q - sn) <= abs(q) * Fraction(1, 10 ** 12):
                coeffs[k] = (atom, sn)
    return coeffs, const


_CANCEL_CACHE = {}


def _has_nonlinear(e):
    todo = [e]
    seen = set()
    while todo:
        t = todo.pop()
        if t.get_id() in seen:
            continue
        seen.add(t.get_id())
        k = t.decl().kind()
        if k == z3.Z3_OP_DIV and not z3.is_rational_value(t.children()[1]):
            return True
        if k == z3.Z3_OP_MUL and sum(1 for c in t.children() if not z3.is_rational_value(c)) >= 2:
            return True
        todo.extend(t.children())
    return False


def _cancel_nonlinear(e):
    """an angle such as  t0 + sweep * ((psi - t0) / sweep)  is linear after cancellation (the engine's division has
    already forked on a zero divisor)"""
    if not _has_nonlinear(e):
        return e
    key = e.sexpr()
    if key in _CANCEL_CACHE:
        return _CANCEL_CACHE[key][1]
    out = e
    try:
        import sympy
        from . import ratfun
        cl = ratfun.Clearer()
        f = sympy.cancel(sympy.together(cl.term(e)))
        n, d = sympy.fraction(f)
        if d.is_Rational:
            out = z3.simplify(cl.to_z3(sympy.expand(n / d)), som=True)
    except Exception:
        out = e
    _CANCEL_CACHE[key] = (e, out)
    return out


def _cmul(a, b):
    return (a[0] * b[0] - a[1] * b[1], a[0] * b[1] + a[1] * b[0])


def _cpow(tok, n):
    if n < 0:
        tok = (tok[0], -tok[1])
        n = -n
    r = (z3.RealVal(1), z3.RealVal(0))
    for _ in range(n):
        r = _cmul(r, tok)
    return r


def _atom_token(atom):
    k = atom.sexpr()
    if k in EX.angle_atoms:
        return EX.angle_atoms[k]
    c = z3.Real(EX.fresh_name("cos"))
    s = z3.Real(EX.fresh_name("sin"))
    EX.nonlinear = True
    EX.shadow_defs[c.decl().name()] = ("cos", atom)
    EX.shadow_defs[s.decl().name()] = ("sin", atom)
    circ = c * c + s * s == 1
    EX.add(circ)
    EX.trig_ids.setdefault(k, []).append(circ.get_id())
    # exact values at multiples of a quarter turn (true of the real functions up to rounding)
    for kq in range(-4, 5):
        cv, sv = [(1, 0), (0, 1), (-1, 0), (0, -1)][kq % 4]
        EX.add(z3.Implies(atom == qval(TAUQ / 4 * kq), z3.And(c == cv, s == sv)))
    EX.angle_atoms[k] = (c, s)
    EX.atom_terms[k] = atom
    return c, s


def _subatom_token(atom, q):
    """token of atom/q (q positive int)"""
    if q == 1:
        return _atom_token(atom)
    k = (atom.sexpr(), q)
    if k in EX.subatoms:
        return EX.subatoms[k]
    c = z3.Real(EX.fresh_name("cos"))
    s = z3.Real(EX.fresh_name("sin"))
    EX.nonlinear = True
    EX.shadow_defs[c.decl().name()] = ("cos", atom / q)
    EX.shadow_defs[s.decl().name()] = ("sin", atom / q)
    full = _atom_token(atom)
    p = _cpow((c, s), q)
    axs = [c * c + s * s == 1, z3.simplify(p[0]) == full[0], z3.simplify(p[1]) == full[1]]
    EX.add(*axs)
    EX.trig_ids.setdefault(atom.sexpr(), []).extend(a.get_id() for a in axs)
    EX.subatoms[k] = (c, s)
    return c, s


def angle_token(e):
    """(cos, sin) z3 terms of the angle term e"""
    lf = linear_form(e)
    coeffs, const = lf
    tok = (z3.RealVal(1), z3.RealVal(0))
    if len(coeffs) > 4:
        raise Unsupported("angle with too many atoms")
    for k, (atom, q) in coeffs.items():
        if q == 0:
            continue
        if q.denominator > 12 or abs(q.numerator) > 12:
            # treat the whole product as an opaque atom
            t = _atom_token(z3.simplify(atom * qval(q)))
        else:
            t = _cpow(_subatom_token(atom, q.denominator), q.numerator)
        tok = _cmul(tok, t)
    if const != 0:
        quarter = const / (TAUQ / 4)
        if quarter.denominator != 1 and abs(quarter - round(quarter)) < Fraction(1, 10 ** 12):
            # a float sum such as tau/4 + tau/4 + tau/4: one rounding away from the exact multiple
            quarter = Fraction(round(quarter))
        if quarter.denominator == 1:
            n = quarter.numerator % 4
            for _ in range(n):
                tok = (-tok[1], tok[0])
        else:
            v = _float(const)
            # concrete non-quarter constant: exact value is transcendental; opaque atom
            t = _atom_token(qval(const))
            # sign/magnitude hints that are true of the real functions
            cv, sv = math.cos(v), math.sin(v)
            eps = Fraction(1, 10 ** 9)
            EX.add(t[0] >= qval(Fraction(cv) - eps), t[0] <= qval(Fraction(cv) + eps),
                   t[1] >= qval(Fraction(sv) - eps), t[1] <= qval(Fraction(sv) + eps))
            tok = _cmul(tok, t)
    return z3.simplify(tok[0]), z3.simplify(tok[1])


def angle_brackets(x, points):
    """monotonicity facts of the real cos and sin for the angle x at the given concrete breakpoints (radians):
    cos decreases on [0, tau/2] and increases on [-tau/2, 0]; sin increases on [-tau/4, tau/4].
    Values at the breakpoints are enclosed to 1e-12."""
    sx = _as_symreal(x)
    if sx is None:
        return
    c, s = angle_token(sx.e)
    e = sx.e
    half, quarter = qval(TAUQ / 2), qval(TAUQ / 4)
    eps = Fraction(1, 10 ** 12)
    cs = []
    for p in points:
        pq = Fraction(p)
        pv = qval(pq)
        cv, sv = Fraction(math.cos(_float(p))), Fraction(math.sin(_float(p)))
        if 0 <= pq <= TAUQ / 2:
            cs.append(z3.Implies(z3.And(e >= 0, e <= pv), c >= qval(cv - eps)))
            cs.append(z3.Implies(z3.And(e >= pv, e <= half), c <= qval(cv + eps)))
            cs.append(z3.Implies(z3.And(e <= 0, e >= -pv), c >= qval(cv - eps)))
            cs.append(z3.Implies(z3.And(e <= -pv, e >= -half), c <= qval(cv + eps)))
        if -TAUQ / 4 <= pq <= TAUQ / 4:
            cs.append(z3.Implies(z3.And(e >= -quarter, e <= pv), s <= qval(sv + eps)))
            cs.append(z3.Implies(z3.And(e >= pv, e <= quarter), s >= qval(sv - eps)))
            cs.append(z3.Implies(z3.And(e >= -quarter, e <= -pv), s <= qval(-sv + eps)))
            cs.append(z3.Implies(z3.And(e >= -pv, e <= quarter), s >= qval(-sv - eps)))
    EX.add(*cs)


def _as_symreal(x):
    if isinstance(x, SymReal):
        return x
    if isinstance(x, SymInt):
        return SymReal(lift(x))
    return None


def _quarter_snap(x):
    """in the symbolic run a concrete angle within 1e-12 of a multiple of tau/4 is that multiple (exact reals):
    (cos, sin) in {(1,0),(0,1),(-1,0),(0,-1)}; otherwise None"""
    if EX is None:
        return None
    q = x / (TAU / 4.0)
    k = round(q)
    if abs(q - k) < 1e-12:
        return [(1, 0), (0, 1), (-1, 0), (0, -1)][k % 4]
    return None


def sym_cos(x):
    sx = _as_symreal(x)
    if sx is None:
        sn = _quarter_snap(x)
        return _float(sn[0]) if sn else math.cos(x)
    return SymReal(angle_token(sx.e)[0])


def sym_sin(x):
    sx = _as_symreal(x)
    if sx is None:
        sn = _quarter_snap(x)
        return _float(sn[1]) if sn else math.sin(x)
    return SymReal(angle_token(sx.e)[1])


def sym_tan(x):
    sx = _as_symreal(x)
    if sx is None:
        return math.tan(x)
    c, s = angle_token(sx.e)
    if EX.branch(c == 0):
        raise Unsupported("tan at a pole (libm returns a huge finite value)")
    EX.nonlinear = True
    return SymReal(s / c)


def _new_angle(kind, c, s, lo, hi, lo_strict, hi_strict):
    th = z3.Real(EX.fresh_name(kind))
    EX.shadow_defs[th.decl().name()] = ("angle", c, s)
    EX.add(th > lo if lo_strict else th >= lo, th < hi if hi_strict else th <= hi)
    EX.angle_atoms[th.sexpr()] = (c, s)
    return th


def sym_atan2(y, x):
    sy, sx = _as_symreal(y), _as_symreal(x)
    if sy is None and sx is None:
        return math.atan2(y, x)
    sy = sy if sy is not None else SymReal(lift(y))
    sx = sx if sx is not None else SymReal(lift(x))
    ak = (_key(sy.e), _key(sx.e))
    if ak in EX.atan2cache:
        return SymReal(EX.atan2cache[ak])
    r = sym_sqrt(sx * sx + sy * sy)
    if EX.branch(r.e == 0):
        return 0.0
    EX.nonlinear = True
    half = qval(TAUQ / 2)
    th = _new_angle("atan2", sx.e / r.e, sy.e / r.e, -half, half, True, False)
    # quadrant facts (true of libm atan2)
    q = qval(TAUQ / 4)
    EX.add(z3.Implies(z3.And(sy.e == 0, sx.e > 0), th == 0),
           z3.Implies(z3.And(sy.e == 0, sx.e < 0), th == half),
           z3.Implies(sy.e > 0, z3.And(th > 0, th < half)),
           z3.Implies(sy.e < 0, z3.And(th < 0, th > -half)),
           z3.Implies(z3.And(sx.e == 0, sy.e > 0), th == q),
           z3.Implies(z3.And(sx.e == 0, sy.e < 0), th == -q),
           z3.Implies(sx.e > 0, z3.And(th > -q, th < q)),
           z3.Implies(sx.e < 0, z3.Or(th > q, th < -q)))
    EX.atan2cache[ak] = th
    return SymReal(th)


def sym_atan(x):
    sx = _as_symreal(x)
    if sx is None:
        return math.atan(x)
    return sym_atan2(sx, 1.0)


def sym_acos(x):
    sx = _as_symreal(x)
    if sx is None:
        return math.acos(x)
    if EX.branch(z3.Or(sx.e < -1, sx.e > 1)):
        raise ValueError("math domain error")
    ak = ("acos", _key(sx.e))
    if ak in EX.atan2cache:
        return SymReal(EX.atan2cache[ak])
    s = sym_sqrt(1 - sx * sx)
    half = qval(TAUQ / 2)
    th = _new_angle("acos", sx.e, s.e, z3.RealVal(0), half, False, False)
    q = qval(TAUQ / 4)
    EX.add(z3.Implies(sx.e == 1, th == 0), z3.Implies(sx.e == -1, th == half),
           z3.Implies(sx.e == 0, th == q),
           z3.Implies(sx.e < 1, th > 0), z3.Implies(sx.e > -1, th < half),
           z3.Implies(sx.e > 0, th < q), z3.Implies(sx.e < 0, th > q))
    EX.atan2cache[ak] = th
    return SymReal(th)


def sym_asin(x):
    raise Unsupported("asin")


def sym_radians(x):
    sx = _as_symreal(x)
    if sx is None:
        return math.radians(x)
    return SymReal(sx.e * qval(TAUQ / 360))


def sym_degrees(x):
    sx = _as_symreal(x)
    if sx is None:
        return math.degrees(x)
    return SymReal(sx.e * qval(Fraction(360) / TAUQ))


def sym_log(x, *a):
    if _as_symreal(x) is None and not any(_as_symreal(y) is not None for y in a):
        return math.log(x, *a)
    raise Unsupported("log of symbolic")


def sym_exp(x):
    if _as_symreal(x) is None:
        return math.exp(x)
    raise Unsupported("exp of symbolic")


def m_ceil(x):
    if isinstance(x, (SymReal, SymInt)):
        return sym_ceil(x)
    return math.ceil(x)


def m_floor(x):
    if isinstance(x, (SymReal, SymInt)):
        return sym_floor(x)
    return math.floor(x)


def m_pow(x, y):
    if isinstance(x, (SymReal, SymInt)) or isinstance(y, (SymReal, SymInt)):
        return x ** y
    return math.pow(x, y)


MATH_SHIMS = {
    "sqrt": sym_sqrt, "hypot": sym_hypot, "cos": sym_cos, "sin": sym_sin, "tan": sym_tan,
    "atan2": sym_atan2, "atan": sym_atan, "acos": sym_acos, "asin": sym_asin,
    "radians": sym_radians, "degrees": sym_degrees, "log": sym_log, "exp": sym_exp,
    "ceil": m_ceil, "floor": m_floor, "pow": m_pow,
}


# ---------------------------------------------------------------------------
# loading and patching the real module
# ---------------------------------------------------------------------------

_loaded = None


def load_module():
    """import /repo's svgelements afresh with numpy/scipy/PIL blocked and rebind
    its math / float / int globals to the shims (by value, whatever their name)."""
    global _loaded
    if _loaded is not None:
        return _loaded
    for m in ("numpy", "scipy", "PIL"):
        sys.modules[m] = None
    repo = os.environ.get("SYMX_REPO", "/repo")
    if repo not in sys.path:
        sys.path.insert(0, repo)
    import svgelements.svgelements as S
    src = os.path.realpath(S.__file__)
    if not src.startswith(os.path.realpath(repo)):
        raise HarnessError("svgelements imported from %s, not %s" % (src, repo))
    by_value = {getattr(math, n): f for n, f in MATH_SHIMS.items() if hasattr(math, n)}
    rebound = []
    for name, val in list(vars(S).items()):
        try:
            if val in by_value:
                setattr(S, name, by_value[val])
                rebound.append(name)
        except TypeError:
            pass
        if val is math:
            raise HarnessError("module imports `math` as a namespace: shim required")
    S.float = symfloat
    S.int = symint
    S.complex = symcomplex
    rebound += ["float", "int", "complex"]
    # Angle(float): keep symbolic values symbolic
    A = S.Angle

    class SymAngle(A, SymReal):
        def __new__(cls, e):
            return SymReal.__new__(cls, e)

        __hash__ = SymReal.__hash__

    def angle_new(cls, v=0.0):
        if isinstance(v, SymReal):
            return SymReal.__new__(SymAngle, v.e)
        if isinstance(v, SymInt):
            return SymReal.__new__(SymAngle, lift(v))
        return _float.__new__(cls, v)

    A.__new__ = staticmethod(angle_new)
    S._symx_SymAngle = SymAngle
    S._symx_rebound = rebound
    _loaded = S
    return S


def source_digest():
    import hashlib
    repo = os.environ.get("SYMX_REPO", "/repo")
    with open(os.path.join(repo, "svgelements", "svgelements.py"), "rb") as f:
        return hashlib.sha256(f.read()).hexdigest()
