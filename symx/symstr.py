"""Symbolic strings and a backtracking interpreter for the module's own regexes.

A symbolic character is a z3 Int (code point).  In concrete text it is carried by
a unique private-use *placeholder* code point (plane 15/16), so C-level string
plumbing that only moves characters around (slicing, +, %s, format, join, expat)
keeps its identity; every operation that *inspects* characters goes through
SymStr / SymRegex, where it becomes a solver fork.
"""
import re
try:
    import re._parser as sre_parse
    import re._constants as sre_c
except ImportError:  # pragma: no cover
    import sre_parse
    import sre_constants as sre_c
from fractions import Fraction

import z3

from . import core
from .core import Unsupported

PH_BASE = 0xF0000
PH_END = 0x10FFFD


def _ex():
    return core.EX


class _CharState:
    pass


def _state():
    ex = _ex()
    st = getattr(ex, "_charstate", None)
    if st is None or st.gen is not ex.cons:
        st = _CharState()
        st.gen = ex.cons          # reset_path() makes a new list => new state per path
        st.by_cp = {}             # placeholder code point -> z3 term
        st.by_key = {}            # term sexpr -> code point
        st.facts = {}             # term sexpr -> set of facts
        st.next = PH_BASE
        ex._charstate = st
    return st


def placeholder_for(term):
    st = _state()
    k = term.sexpr()
    cp = st.by_key.get(k)
    if cp is None:
        cp = st.next
        st.next += 1
        if cp in (0xFFFFE, 0xFFFFF):
            cp = 0x100000
            st.next = cp + 1
        if cp > PH_END:
            raise Unsupported("too many symbolic characters")
        st.by_key[k] = cp
        st.by_cp[cp] = term
    return chr(cp)


def has_placeholder(s):
    for c in s:
        if PH_BASE <= ord(c) <= PH_END:
            return True
    return False


def lift_chars(s):
    """str -> list of (int | z3 Int term)"""
    if isinstance(s, SymStr):
        return list(s.chars)
    st = _state() if _ex() is not None else None
    out = []
    for c in s:
        o = ord(c)
        if st is not None and PH_BASE <= o <= PH_END and o in st.by_cp:
            out.append(st.by_cp[o])
        else:
            out.append(o)
    return out


def is_sym(ch):
    return not isinstance(ch, int)


def mkstr(chars):
    chars = list(chars)
    if all(not is_sym(c) for c in chars):
        return "".join(chr(c) for c in chars)
    return SymStr(chars)


def fresh_char(name):
    v = z3.Int(name)
    ex = _ex()
    ex.inputs[name] = v
    ex.has_int = True
    ex.add(v >= 0, v <= 0x10FFFF, z3.Or(v < 0xD800, v > 0xDFFF), z3.Or(v < PH_BASE, v > PH_END))
    return v


def add_fact(ch, fact):
    if is_sym(ch):
        _state().facts.setdefault(ch.sexpr(), set()).add(fact)


def facts(ch):
    return _state().facts.get(ch.sexpr(), ()) if is_sym(ch) else ()


def ch_eq(ch, c):
    """condition: character equals concrete code point c"""
    if not is_sym(ch):
        return ch == c
    return ch == c


def ch_in_range(ch, lo, hi):
    if not is_sym(ch):
        return lo <= ch <= hi
    return z3.And(ch >= lo, ch <= hi)


def zor(conds):
    conds = list(conds)
    if any(c is True for c in conds):
        return True
    conds = [c for c in conds if c is not False]
    if not conds:
        return False
    return z3.Or(conds) if len(conds) > 1 else conds[0]


def zand(conds):
    conds = list(conds)
    if any(c is False for c in conds):
        return False
    conds = [c for c in conds if c is not True]
    if not conds:
        return True
    return z3.And(conds) if len(conds) > 1 else conds[0]


def znot(c):
    if c is True:
        return False
    if c is False:
        return True
    return z3.Not(c)


def br(cond):
    if cond is True or cond is False:
        return cond
    return _ex().branch(cond)


_SPACE = [9, 10, 11, 12, 13, 28, 29, 30, 31, 32, 133, 160, 5760, 8232, 8233, 8239, 8287, 12288] + list(range(8192, 8203))


def _unicode_digit_ranges():
    import unicodedata
    rs = []
    start = None
    prev = None
    import sys
    for cp in range(sys.maxunicode + 1):
        if unicodedata.category(chr(cp)) == "Nd":
            if start is None:
                start = cp
            prev = cp
        else:
            if start is not None:
                rs.append((start, prev))
                start = None
    return rs


_DIGIT_RANGES = None


def cond_space(ch):
    return zor(ch_eq(ch, c) for c in _SPACE)


def cond_digit(ch):
    global _DIGIT_RANGES
    if _DIGIT_RANGES is None:
        _DIGIT_RANGES = _unicode_digit_ranges()
    return zor(ch_in_range(ch, a, b) for a, b in _DIGIT_RANGES)


def cond_word(ch):
    # only used by patterns over ASCII here; non-ASCII word characters are not modelled
    raise Unsupported("\\w category")


def cond_in_set(ch, items):
    neg = False
    conds = []
    for op, av in items:
        if op is sre_c.NEGATE:
            neg = True
        elif op is sre_c.LITERAL:
            conds.append(ch_eq(ch, av))
        elif op is sre_c.RANGE:
            conds.append(ch_in_range(ch, av[0], av[1]))
        elif op is sre_c.CATEGORY:
            if av is sre_c.CATEGORY_SPACE:
                conds.append(cond_space(ch))
            elif av is sre_c.CATEGORY_NOT_SPACE:
                conds.append(znot(cond_space(ch)))
            elif av is sre_c.CATEGORY_DIGIT:
                conds.append(cond_digit(ch))
            elif av is sre_c.CATEGORY_NOT_DIGIT:
                conds.append(znot(cond_digit(ch)))
            else:
                raise Unsupported("regex category %s" % av)
        else:
            raise Unsupported("regex set item %s" % op)
    c = zor(conds)
    return znot(c) if neg else c


class SymStr(str):
    """str subclass whose content is placeholder text; .chars are the terms"""

    def __new__(cls, chars):
        chars = list(chars)
        text = "".join(placeholder_for(c) if is_sym(c) else chr(c) for c in chars)
        o = str.__new__(cls, text)
        o.chars = chars
        return o

    # -- structure --------------------------------------------------------
    def __len__(self):
        return len(self.chars)

    def __getitem__(self, i):
        if isinstance(i, slice):
            return mkstr(self.chars[i])
        return mkstr([self.chars[i]])

    def __iter__(self):
        for c in self.chars:
            yield mkstr([c])

    def __add__(self, o):
        if isinstance(o, str):
            return mkstr(self.chars + lift_chars(o))
        return NotImplemented

    def __radd__(self, o):
        if isinstance(o, str):
            return mkstr(lift_chars(o) + self.chars)
        return NotImplemented

    def __mul__(self, n):
        return mkstr(self.chars * n)

    def __str__(self):
        return self

    def __repr__(self):
        return "SymStr(%d)" % len(self.chars)

    def __hash__(self):
        return str.__hash__(self)

    def __bool__(self):
        return len(self.chars) != 0

    def __copy__(self):
        return self

    def __mod__(self, args):
        raise Unsupported("SymStr %% args")

    def __contains__(self, sub):
        sub = lift_chars(sub)
        n, m = len(self.chars), len(sub)
        if m == 0:
            return True
        for i in range(0, n - m + 1):
            if br(zand(_ceq(self.chars[i + j], sub[j]) for j in range(m))):
                return True
        return False

    # -- comparisons --------------------------------------------------------
    def __eq__(self, o):
        if not isinstance(o, str):
            return False
        oc = lift_chars(o)
        if len(oc) != len(self.chars):
            return False
        return br(zand(_ceq(a, b) for a, b in zip(self.chars, oc)))

    def __ne__(self, o):
        return not self.__eq__(o)

    def __lt__(self, o):
        raise Unsupported("SymStr ordering")
    __le__ = __gt__ = __ge__ = __lt__

    # -- inspection methods used by the library -----------------------------
    def _ascii_guard(self):
        for c in self.chars:
            if is_sym(c) and "ascii" not in facts(c):
                if br(c > 127):
                    raise Unsupported("non-ASCII character in case mapping")
                add_fact(c, "ascii")

    def lower(self):
        self._ascii_guard()
        out = []
        for c in self.chars:
            if is_sym(c):
                out.append(z3.If(z3.And(c >= 65, c <= 90), c + 32, c))
            else:
                out.append(ord(chr(c).lower()) if c < 128 else c)
        return mkstr(out)

    def upper(self):
        self._ascii_guard()
        out = []
        for c in self.chars:
            if is_sym(c):
                out.append(z3.If(z3.And(c >= 97, c <= 122), c - 32, c))
            else:
                out.append(ord(chr(c).upper()) if c < 128 else c)
        return mkstr(out)

    def islower(self):
        self._ascii_guard()
        cased = False
        for c in self.chars:
            if br(ch_in_range(c, 65, 90)):
                return False
            if br(ch_in_range(c, 97, 122)):
                cased = True
        return cased

    def isupper(self):
        self._ascii_guard()
        cased = False
        for c in self.chars:
            if br(ch_in_range(c, 97, 122)):
                return False
            if br(ch_in_range(c, 65, 90)):
                cased = True
        return cased

    def startswith(self, p, *a):
        if a:
            raise Unsupported("startswith with range")
        if isinstance(p, tuple):
            return any(self.startswith(q) for q in p)
        pc = lift_chars(p)
        if len(pc) > len(self.chars):
            return False
        return br(zand(_ceq(a_, b_) for a_, b_ in zip(self.chars, pc)))

    def endswith(self, p, *a):
        if a:
            raise Unsupported("endswith with range")
        if isinstance(p, tuple):
            return any(self.endswith(q) for q in p)
        pc = lift_chars(p)
        if len(pc) > len(self.chars):
            return False
        if not pc:
            return True
        return br(zand(_ceq(a_, b_) for a_, b_ in zip(self.chars[-len(pc):], pc)))

    def _strip_set(self, chars):
        if chars is None:
            return None
        return lift_chars(chars)

    def _is_strip_char(self, c, sset):
        if sset is None:
            return cond_space(c)
        return zor(_ceq(c, s) for s in sset)

    def lstrip(self, chars=None):
        sset = self._strip_set(chars)
        i = 0
        while i < len(self.chars) and br(self._is_strip_char(self.chars[i], sset)):
            i += 1
        return mkstr(self.chars[i:])

    def rstrip(self, chars=None):
        sset = self._strip_set(chars)
        j = len(self.chars)
        while j > 0 and br(self._is_strip_char(self.chars[j - 1], sset)):
            j -= 1
        return mkstr(self.chars[:j])

    def strip(self, chars=None):
        s = self.lstrip(chars)
        return s.rstrip(chars) if isinstance(s, SymStr) else s.strip(chars)

    def replace(self, old, new, count=-1):
        oc = lift_chars(old)
        nc = lift_chars(new)
        if len(oc) != 1 or count != -1:
            raise Unsupported("replace of multi-character pattern")
        out = []
        for c in self.chars:
            if br(_ceq(c, oc[0])):
                out.extend(nc)
            else:
                out.append(c)
        return mkstr(out)

    def split(self, sep=None, maxsplit=-1):
        if sep is None or maxsplit != -1:
            raise Unsupported("split on whitespace / maxsplit")
        sc = lift_chars(sep)
        if len(sc) != 1:
            raise Unsupported("split on multi-character separator")
        parts = []
        cur = []
        for c in self.chars:
            if br(_ceq(c, sc[0])):
                parts.append(mkstr(cur))
                cur = []
            else:
                cur.append(c)
        parts.append(mkstr(cur))
        return parts

    def find(self, sub, *a):
        raise Unsupported("find")

    def index(self, sub, *a):
        raise Unsupported("index")

    def format(self, *a, **k):
        raise Unsupported("SymStr.format")

    def join(self, it):
        out = []
        first = True
        for x in it:
            if not first:
                out.extend(self.chars)
            out.extend(lift_chars(x))
            first = False
        return mkstr(out)

    def encode(self, *a, **k):
        raise Unsupported("encode")

    def isdigit(self):
        return len(self.chars) > 0 and all(br(cond_digit(c)) for c in self.chars)

    def isspace(self):
        return len(self.chars) > 0 and all(br(cond_space(c)) for c in self.chars)


for _name in ("capitalize", "casefold", "center", "count", "expandtabs", "format_map",
              "isalnum", "isalpha", "isascii", "isdecimal", "isidentifier", "isnumeric",
              "isprintable", "istitle", "ljust", "partition", "removeprefix", "removesuffix",
              "rfind", "rindex", "rjust", "rpartition", "rsplit", "splitlines", "swapcase",
              "title", "translate", "zfill"):
    def _mk(n):
        def f(self, *a, **k):
            raise Unsupported("SymStr.%s" % n)
        return f
    setattr(SymStr, _name, _mk(_name))


def _ceq(a, b):
    if not is_sym(a) and not is_sym(b):
        return a == b
    return a == b


# ---------------------------------------------------------------------------
# numerals
# ---------------------------------------------------------------------------

def _digit_val(c):
    if is_sym(c):
        if getattr(_ex(), "concretize_digits", False):
            return z3.RealVal(_ex().concretize_int(c - 48, 0, 9, "digit"))
        return z3.ToReal(c - 48)
    return z3.RealVal(c - 48)


def _classify(c):
    """'d' digit, '.' dot, 's' sign, 'e' exponent marker, 'w' whitespace, '_' underscore or None"""
    if br(ch_in_range(c, 48, 57)):
        return "d"
    if br(ch_eq(c, 46)):
        return "."
    if br(zor([ch_eq(c, 43), ch_eq(c, 45)])):
        return "s"
    if br(zor([ch_eq(c, 69), ch_eq(c, 101)])):
        return "e"
    if br(cond_space(c)):
        return "w"
    return None


def float_of_symstr(s):
    """float(str) for a symbolic string: decimal numerals as accepted by CPython
    (optional surrounding whitespace, sign, digits with optional dot, optional exponent);
    inf/nan/underscores/non-ASCII digits -> ValueError or Unsupported."""
    chars = list(s.chars)
    ex = _ex()
    n = len(chars)
    i = 0
    kinds = [_classify(c) for c in chars]
    while i < n and kinds[i] == "w":
        i += 1
    j = n
    while j > i and kinds[j - 1] == "w":
        j -= 1
    if i == j:
        raise ValueError("could not convert string to float")
    k = i
    neg = None
    if kinds[k] == "s":
        c = chars[k]
        neg = (c == 45) if is_sym(c) else (c == 45)
        if is_sym(c) and getattr(ex, "concretize_digits", False):
            neg = br(c == 45)
        k += 1
    mant = z3.RealVal(0)
    ndig = 0
    fracdig = 0
    seen_dot = False
    while k < j and kinds[k] in ("d", "."):
        if kinds[k] == ".":
            if seen_dot:
                raise ValueError("could not convert string to float")
            seen_dot = True
        else:
            mant = mant * 10 + _digit_val(chars[k])
            ndig += 1
            if seen_dot:
                fracdig += 1
        k += 1
    if ndig == 0:
        # could be inf/nan spelled with symbolic letters: not a number for our grammars
        if k < j and kinds[k] is None:
            # letters: 'inf', 'nan', 'infinity' are accepted by CPython
            rest = chars[k:j]
            if len(rest) in (3, 8):
                raise Unsupported("possible inf/nan spelling")
        raise ValueError("could not convert string to float")
    exp10 = 0
    if k < j and kinds[k] == "e":
        k += 1
        eneg = False
        if k < j and kinds[k] == "s":
            c = chars[k]
            eneg = br(ch_eq(c, 45))
            k += 1
        edig = 0
        ev = 0
        while k < j and kinds[k] == "d":
            c = chars[k]
            d = c - 48 if not is_sym(c) else ex.concretize_int(c - 48, 0, 9, "exponent digit")
            ev = ev * 10 + d
            edig += 1
            k += 1
        if edig == 0:
            raise ValueError("could not convert string to float")
        if ev > 400:
            raise Unsupported("exponent magnitude")
        exp10 = -ev if eneg else ev
    if k != j:
        if any(kinds[t] is None for t in range(k, j)):
            # letters/underscore etc.
            for t in range(k, j):
                c = chars[t]
                if kinds[t] is None and br(ch_eq(c, 95)):
                    raise Unsupported("underscore in numeral")
                if kinds[t] is None and is_sym(c) and br(c > 127):
                    raise Unsupported("non-ASCII character in numeral")
        raise ValueError("could not convert string to float")
    scale = Fraction(10) ** (exp10 - fracdig)
    val = mant * core.qval(scale)
    if neg is not None:
        if not isinstance(neg, bool):
            val = z3.If(neg, -val, val)
        elif neg:
            val = -val
    val = z3.simplify(val)
    if z3.is_rational_value(val):
        # every character of the numeral is fixed on this path: behave as the real float()
        return float(Fraction(val.numerator_as_long(), val.denominator_as_long()))
    return core.SymReal(val)


def _hexval(c):
    if is_sym(c):
        return z3.If(c <= 57, c - 48, z3.If(c <= 70, c - 55, c - 87))
    return int(chr(c), 16)


def cond_hexdigit(c):
    return zor([ch_in_range(c, 48, 57), ch_in_range(c, 65, 70), ch_in_range(c, 97, 102)])


def int_of_symstr(s, base):
    chars = list(s.chars)
    ex = _ex()
    ex.has_int = True
    n = len(chars)
    i, j = 0, n
    while i < j and br(cond_space(chars[i])):
        i += 1
    while j > i and br(cond_space(chars[j - 1])):
        j -= 1
    if i == j:
        raise ValueError("invalid literal for int()")
    neg = None
    if br(zor([ch_eq(chars[i], 43), ch_eq(chars[i], 45)])):
        neg = chars[i] == 45
        i += 1
    if i == j:
        raise ValueError("invalid literal for int()")
    val = z3.IntVal(0)
    for t in range(i, j):
        c = chars[t]
        if base == 10:
            if not br(ch_in_range(c, 48, 57)):
                if br(ch_eq(c, 95)):
                    raise Unsupported("underscore in numeral")
                if is_sym(c) and br(c > 127):
                    raise Unsupported("non-ASCII digit")
                raise ValueError("invalid literal for int() with base 10")
            val = val * 10 + (c - 48 if is_sym(c) else z3.IntVal(c - 48))
        elif base == 16:
            if not br(cond_hexdigit(c)):
                if br(ch_eq(c, 95)):
                    raise Unsupported("underscore in numeral")
                if is_sym(c) and br(c > 127):
                    raise Unsupported("non-ASCII digit")
                if t == i + 1 and br(zor([ch_eq(c, 120), ch_eq(c, 88)])):
                    raise Unsupported("0x prefix")
                raise ValueError("invalid literal for int() with base 16")
            hv = _hexval(c)
            val = val * 16 + (hv if is_sym(c) else z3.IntVal(hv))
        else:
            raise Unsupported("int base %r" % base)
    if neg is not None:
        if isinstance(neg, bool):
            val = -val if neg else val
        else:
            val = z3.If(neg, -val, val)
    return core.SymInt(z3.simplify(val))


# ---------------------------------------------------------------------------
# regex interpreter
# ---------------------------------------------------------------------------

class SymMatch:
    def __init__(self, chars, start, end, groups, ngroups, names, lastindex):
        self._chars = chars
        self._start, self._end = start, end
        self._groups = groups
        self._n = ngroups
        self._names = names
        self.lastindex = lastindex
        self.lastgroup = names.get(lastindex) if lastindex is not None else None
        self.pos = start

    def _span(self, g):
        if isinstance(g, str):
            g = {v: k for k, v in self._names.items()}[g]
        if g == 0:
            return (self._start, self._end)
        return self._groups.get(g)

    def start(self, g=0):
        sp = self._span(g)
        return sp[0] if sp else -1

    def end(self, g=0):
        sp = self._span(g)
        return sp[1] if sp else -1

    def span(self, g=0):
        sp = self._span(g)
        return sp if sp else (-1, -1)

    def group(self, *gs):
        if not gs:
            gs = (0,)
        out = []
        for g in gs:
            sp = self._span(g)
            out.append(None if sp is None else mkstr(self._chars[sp[0]:sp[1]]))
        return out[0] if len(out) == 1 else tuple(out)

    def groups(self, default=None):
        return tuple(self.group(i) if self._span(i) is not None else default for i in range(1, self._n + 1))

    def __bool__(self):
        return True


class SymRegex:
    """interprets the parse tree of a compiled pattern; falls back to the compiled
    pattern itself on fully concrete text"""

    def __init__(self, compiled):
        self.orig = compiled
        self.pattern = compiled.pattern
        self.flags = compiled.flags
        self.tree = sre_parse.parse(compiled.pattern, compiled.flags & ~re.UNICODE if isinstance(compiled.pattern, bytes) else compiled.flags)
        self.groups = compiled.groups
        self.groupindex = compiled.groupindex
        self._names = {v: k for k, v in compiled.groupindex.items()}
        if compiled.flags & re.IGNORECASE:
            raise Unsupported("IGNORECASE pattern")

    def _concrete(self, s):
        return not isinstance(s, SymStr) and not has_placeholder(s)

    # public API --------------------------------------------------------------
    def match(self, s, pos=0, endpos=None):
        if self._concrete(s):
            return self.orig.match(s, pos) if endpos is None else self.orig.match(s, pos, endpos)
        chars = lift_chars(s)
        if endpos is not None:
            chars = chars[:endpos]
        return self._match_at(chars, pos)

    def fullmatch(self, s, pos=0):
        raise Unsupported("fullmatch")

    def search(self, s, pos=0):
        if self._concrete(s):
            return self.orig.search(s, pos)
        chars = lift_chars(s)
        for p in range(pos, len(chars) + 1):
            m = self._match_at(chars, p)
            if m is not None:
                return m
        return None

    def finditer(self, s, pos=0):
        if self._concrete(s):
            yield from self.orig.finditer(s, pos)
            return
        chars = lift_chars(s)
        p = pos
        n = len(chars)
        while p <= n:
            m = self._match_at(chars, p)
            if m is None:
                p += 1
                continue
            yield m
            if m.end() == m.start():
                p = m.end() + 1
            else:
                p = m.end()

    def findall(self, s, pos=0):
        if self._concrete(s):
            return self.orig.findall(s, pos)
        out = []
        for m in self.finditer(s, pos):
            if self.groups == 0:
                out.append(m.group())
            elif self.groups == 1:
                g = m.group(1)
                out.append("" if g is None else g)
            else:
                out.append(tuple("" if g is None else g for g in m.groups()))
        return out

    def sub(self, repl, s, count=0):
        if self._concrete(s):
            return self.orig.sub(repl, s, count)
        if not isinstance(repl, str) or "\\" in repl:
            raise Unsupported("regex sub with group references")
        chars = lift_chars(s)
        out = []
        p = 0
        for m in self.finditer(s):
            out.extend(chars[p:m.start()])
            out.extend(lift_chars(repl))
            p = m.end()
        out.extend(chars[p:])
        return mkstr(out)

    def split(self, s, maxsplit=0):
        if self._concrete(s):
            return self.orig.split(s, maxsplit)
        raise Unsupported("regex split")

    # matcher -----------------------------------------------------------------
    def _match_at(self, chars, pos):
        n = len(chars)
        groups = {}
        last = [None]
        multiline = bool(self.flags & re.MULTILINE)
        dotall = bool(self.flags & re.DOTALL)

        def m(seq, i, p, k):
            if i == len(seq):
                return k(p)
            op, av = seq[i]

            def nxt(p2):
                return m(seq, i + 1, p2, k)

            if op is sre_c.LITERAL:
                if p < n and br(ch_eq(chars[p], av)):
                    return nxt(p + 1)
                return None
            if op is sre_c.NOT_LITERAL:
                if p < n and br(znot(ch_eq(chars[p], av))):
                    return nxt(p + 1)
                return None
            if op is sre_c.ANY:
                if p < n and (dotall or br(znot(ch_eq(chars[p], 10)))):
                    return nxt(p + 1)
                return None
            if op is sre_c.IN:
                if p < n and br(cond_in_set(chars[p], av)):
                    return nxt(p + 1)
                return None
            if op is sre_c.BRANCH:
                for alt in av[1]:
                    r = m(list(alt), 0, p, nxt)
                    if r is not None:
                        return r
                return None
            if op is sre_c.SUBPATTERN:
                gid, add_flags, del_flags, sub = av
                if add_flags or del_flags:
                    raise Unsupported("inline flags")

                def done(p2):
                    old = groups.get(gid, "nope")
                    oldlast = last[0]
                    if gid is not None:
                        groups[gid] = (p, p2)
                        last[0] = gid
                    r = nxt(p2)
                    if r is None and gid is not None:
                        if old == "nope":
                            groups.pop(gid, None)
                        else:
                            groups[gid] = old
                        last[0] = oldlast
                    return r
                return m(list(sub), 0, p, done)
            if op is sre_c.MAX_REPEAT:
                lo, hi, sub = av
                sub = list(sub)

                def rep(count, p1):
                    if hi is sre_c.MAXREPEAT or count < hi:
                        def again(p2):
                            if p2 == p1 and count >= lo:
                                return None
                            return rep(count + 1, p2)
                        r = m(sub, 0, p1, again)
                        if r is not None:
                            return r
                    if count >= lo:
                        return nxt(p1)
                    return None
                return rep(0, p)
            if op is sre_c.MIN_REPEAT:
                lo, hi, sub = av
                sub = list(sub)

                def rep2(count, p1):
                    if count >= lo:
                        r = nxt(p1)
                        if r is not None:
                            return r
                    if hi is sre_c.MAXREPEAT or count < hi:
                        def again(p2):
                            if p2 == p1 and count >= lo:
                                return None
                            return rep2(count + 1, p2)
                        return m(sub, 0, p1, again)
                    return None
                return rep2(0, p)
            if op is sre_c.ASSERT:
                direction, sub = av
                if direction != 1:
                    raise Unsupported("lookbehind")
                r = m(list(sub), 0, p, lambda p2: True)
                return nxt(p) if r else None
            if op is sre_c.ASSERT_NOT:
                direction, sub = av
                if direction != 1:
                    raise Unsupported("lookbehind")
                r = m(list(sub), 0, p, lambda p2: True)
                return None if r else nxt(p)
            if op is sre_c.AT:
                if av in (sre_c.AT_BEGINNING, sre_c.AT_BEGINNING_STRING):
                    ok = p == 0 or (multiline and av is sre_c.AT_BEGINNING and br(ch_eq(chars[p - 1], 10)))
                    return nxt(p) if ok else None
                if av in (sre_c.AT_END, sre_c.AT_END_STRING):
                    if p == n:
                        return nxt(p)
                    if av is sre_c.AT_END:
                        if p == n - 1 and br(ch_eq(chars[p], 10)):
                            return nxt(p)
                        if multiline and br(ch_eq(chars[p], 10)):
                            return nxt(p)
                    return None
                raise Unsupported("regex anchor %s" % av)
            raise Unsupported("regex op %s" % op)

        r = m(list(self.tree), 0, pos, lambda p: p)
        if r is None:
            return None
        # lastindex: sre reports the last *closed* group; for alternations of named
        # groups at top level (the token regexes) this is the single matched group.
        lastindex = None
        if groups:
            # choose the outermost group that closed last: the one with max end, then min start
            best = None
            for gid, (a, b) in groups.items():
                key = (b, -a, -gid)
                if best is None or key > best[0]:
                    best = (key, gid)
            lastindex = best[1]
        return SymMatch(chars, pos, r, dict(groups), self.groups, self._names, lastindex)


class ReShim:
    """replacement for the module-global `re` namespace: functions accept SymRegex objects"""

    def __init__(self):
        self._cache = {}
        for k in dir(re):
            if k.isupper():
                setattr(self, k, getattr(re, k))
        self.error = re.error
        self.Pattern = re.Pattern

    def compile(self, pattern, flags=0):
        if isinstance(pattern, SymRegex):
            return pattern
        key = (pattern, flags)
        if key not in self._cache:
            self._cache[key] = SymRegex(re.compile(pattern, flags))
        return self._cache[key]

    def match(self, pattern, s, flags=0): return self.compile(pattern, flags).match(s)
    def search(self, pattern, s, flags=0): return self.compile(pattern, flags).search(s)
    def findall(self, pattern, s, flags=0): return self.compile(pattern, flags).findall(s)
    def finditer(self, pattern, s, flags=0): return self.compile(pattern, flags).finditer(s)
    def sub(self, pattern, repl, s, count=0, flags=0): return self.compile(pattern, flags).sub(repl, s, count)
    def split(self, pattern, s, maxsplit=0, flags=0): return self.compile(pattern, flags).split(s, maxsplit)
    def escape(self, s): return re.escape(s)


def install_regex(S):
    """replace every compiled pattern in the module globals (whatever its name)"""
    names = []
    for name, val in list(vars(S).items()):
        if isinstance(val, re.Pattern):
            try:
                setattr(S, name, SymRegex(val))
                names.append(name)
            except Unsupported:
                pass
    if getattr(S, "re", None) is re:
        S.re = ReShim()
        names.append("re")
    # attribute text that carries symbolic characters (placeholders survive expat) becomes a SymStr again,
    # so that str methods applied to it (lower, split, strip ...) are symbolic too
    orig_iterparse = getattr(S, "iterparse", None)
    if orig_iterparse is not None and not getattr(orig_iterparse, "_symx", False):
        def iterparse(source, events=None, parser=None):
            for event, elem in orig_iterparse(source, events=events, parser=parser):
                if event == "start":
                    att = elem.attrib
                    for k, v in list(att.items()):
                        if isinstance(v, str) and not isinstance(v, SymStr) and _ex() is not None and has_placeholder(v):
                            att[k] = SymStr(lift_chars(v))
                yield event, elem
        iterparse._symx = True
        S.iterparse = iterparse
        names.append("iterparse")
    return names
