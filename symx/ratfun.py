"""Clearing denominators: rewrite a z3 formula over the reals whose atoms compare rational functions into one whose
atoms compare polynomials (after an optional substitution of variables by rational functions).

    a/b <= c   becomes   N * F <= 0   where (a/b - c) = N / D, D = P * F * (squares), P > 0 syntactically,
                                       F = product of the factors of D of odd multiplicity and unknown sign

The rewriting preserves every model in which no denominator vanishes (the engine's division forks on a zero
divisor before it divides, so the path condition already excludes those).  nlsat decides the polynomial form of the
arc kernels in well under a second where the fractional form does not finish in minutes.
"""
from fractions import Fraction

import sympy
import z3

_CMP = {z3.Z3_OP_LE: "<=", z3.Z3_OP_LT: "<", z3.Z3_OP_GE: ">=", z3.Z3_OP_GT: ">", z3.Z3_OP_EQ: "=", z3.Z3_OP_DISTINCT: "!="}


class Unsupported(Exception):
    pass


class Clearer:
    def __init__(self, subs=None, positive=()):
        """subs: {z3 const name: sympy expression}; positive: sympy symbols/expressions known > 0"""
        self.syms = {}          # name -> (sympy symbol, z3 const)
        self.subs = subs if subs is not None else {}
        self.cache = {}
        self.positive = set(positive)

    def sym(self, e):
        name = e.decl().name()
        if name not in self.syms:
            self.syms[name] = (sympy.Symbol("v%d" % len(self.syms), real=True), e)
        return self.syms[name][0]

    def new_symbol(self, z3const):
        return self.sym(z3const)

    # -- arithmetic terms -> sympy ------------------------------------------------------
    def term(self, e):
        k = e.get_id()
        if k in self.cache:
            return self.cache[k][1]
        r = self._term(e)
        self.cache[k] = (e, r)      # keeps e alive: z3 reuses the ids of freed terms
        return r

    def _term(self, e):
        if z3.is_rational_value(e):
            return sympy.Rational(e.numerator_as_long(), e.denominator_as_long())
        if z3.is_int_value(e):
            return sympy.Integer(e.as_long())
        if z3.is_const(e) and e.decl().kind() == z3.Z3_OP_UNINTERPRETED:
            name = e.decl().name()
            if name in self.subs:
                return self.subs[name]
            return self.sym(e)
        kd = e.decl().kind()
        ch = e.children()
        if kd == z3.Z3_OP_ADD:
            return sympy.Add(*[self.term(c) for c in ch])
        if kd == z3.Z3_OP_MUL:
            return sympy.Mul(*[self.term(c) for c in ch])
        if kd == z3.Z3_OP_SUB:
            r = self.term(ch[0])
            for c in ch[1:]:
                r = r - self.term(c)
            return r
        if kd == z3.Z3_OP_UMINUS:
            return -self.term(ch[0])
        if kd == z3.Z3_OP_POWER and z3.is_rational_value(ch[1]) and ch[1].denominator_as_long() == 1 and 0 <= ch[1].numerator_as_long() <= 8:
            return self.term(ch[0]) ** ch[1].numerator_as_long()
        if kd == z3.Z3_OP_DIV:
            return self.term(ch[0]) / self.term(ch[1])
        if kd == z3.Z3_OP_TO_REAL:
            return self.term(ch[0])
        raise Unsupported("term kind %s" % e.decl().name())

    def to_z3(self, p):
        by_symbol = {v[0]: v[1] for v in self.syms.values()}
        return _poly_to_z3(p, by_symbol)

    def _is_positive(self, f):
        if f in self.positive:
            return True
        try:
            poly = sympy.Poly(f)
        except sympy.PolynomialError:
            return False
        has_const = False
        for mon, co in poly.terms():
            if co <= 0 or any(m % 2 for m in mon):
                return False
            if all(m == 0 for m in mon):
                has_const = True
        return has_const

    def atom(self, op, a, b):
        f = sympy.together(self.term(a) - self.term(b))
        if f.has(sympy.zoo, sympy.nan, sympy.oo, -sympy.oo):
            raise Unsupported("division by zero in this case")
        n, d = sympy.fraction(f)
        n = sympy.expand(n)
        if d != 1:
            coeff, factors = sympy.factor_list(sympy.expand(d))
            sign = 1 if coeff > 0 else -1
            mult = sympy.Integer(1)
            for fac, m in factors:
                if m % 2 == 0 or self._is_positive(fac):
                    continue
                if self._is_positive(-fac):
                    sign = -sign
                    continue
                mult = mult * fac
            n = sympy.expand(n * mult * sign)
        z = self.to_z3(n)
        zero = z3.RealVal(0)
        return {"<=": z <= zero, "<": z < zero, ">=": z >= zero, ">": z > zero, "=": z == zero, "!=": z != zero}[op]

    # -- formulas -----------------------------------------------------------------------
    def formula(self, e):
        kd = e.decl().kind()
        ch = e.children()
        if kd in (z3.Z3_OP_AND, z3.Z3_OP_OR, z3.Z3_OP_NOT, z3.Z3_OP_IMPLIES, z3.Z3_OP_XOR):
            sub = [self.formula(c) for c in ch]
            return {z3.Z3_OP_AND: z3.And, z3.Z3_OP_OR: z3.Or}[kd](*sub) if kd in (z3.Z3_OP_AND, z3.Z3_OP_OR) else (
                z3.Not(sub[0]) if kd == z3.Z3_OP_NOT else (z3.Implies(sub[0], sub[1]) if kd == z3.Z3_OP_IMPLIES else z3.Xor(sub[0], sub[1])))
        if kd == z3.Z3_OP_ITE and z3.is_bool(e):
            return z3.If(self.formula(ch[0]), self.formula(ch[1]), self.formula(ch[2]))
        if kd in (z3.Z3_OP_EQ, z3.Z3_OP_IFF) and z3.is_bool(ch[0]):
            return self.formula(ch[0]) == self.formula(ch[1])
        if kd in _CMP and len(ch) == 2 and (z3.is_real(ch[0]) or z3.is_int(ch[0])):
            ite = _find_ite(e)
            if ite is not None:
                c, a, b = ite.children()
                return z3.Or(z3.And(self.formula(c), self.formula(z3.substitute(e, (ite, a)))),
                             z3.And(z3.Not(self.formula(c)), self.formula(z3.substitute(e, (ite, b)))))
            return self.atom(_CMP[kd], ch[0], ch[1])
        if z3.is_true(e) or z3.is_false(e):
            return e
        if z3.is_const(e) and z3.is_bool(e):
            return e
        raise Unsupported("formula kind %s" % e.decl().name())


def _find_ite(e):
    todo = [e]
    seen = set()
    while todo:
        t = todo.pop()
        if t.get_id() in seen:
            continue
        seen.add(t.get_id())
        if z3.is_app_of(t, z3.Z3_OP_ITE) and not z3.is_bool(t):
            return t
        todo.extend(t.children())
    return None


def circle_power(u, m):
    """(cos, sin) of m times the angle whose (cos, sin) is ((1-u^2)/(1+u^2), 2u/(1+u^2))"""
    z = sympy.expand((1 - u ** 2 + 2 * sympy.I * u) ** abs(m))
    re, im = sympy.re(z), sympy.im(z)
    d = (1 + u ** 2) ** abs(m)
    return re / d, (im if m >= 0 else -im) / d


def _poly_to_z3(p, by_symbol):
    p = sympy.expand(p)
    if p.is_Rational:
        return z3.RealVal("%d/%d" % (int(p.p), int(p.q)))
    syms = sorted(p.free_symbols, key=lambda s: s.name)
    poly = sympy.Poly(p, *syms)
    total = None
    for mon, co in poly.terms():
        t = z3.RealVal("%d/%d" % (int(co.p), int(co.q)))
        for s, m in zip(syms, mon):
            for _ in range(m):
                t = t * by_symbol[s]
        total = t if total is None else total + t
    return total if total is not None else z3.RealVal(0)
