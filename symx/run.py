"""Runner: explores every harness of a property symbolically (16 workers), replays
counterexamples on the unmodified module under /venv/bin/python, writes evidence."""
import argparse
import fnmatch
import hashlib
import importlib
import json
import multiprocessing as mp
import os
import subprocess
import sys
import time
import traceback

VERIF = os.path.dirname(os.path.dirname(os.path.abspath(__file__)))
REPO = os.environ.get("SYMX_REPO", "/repo")
REPLAY_PY = os.environ.get("SYMX_REPLAY_PYTHON", "/venv/bin/python")

TIERS = {
    "quick": dict(branch_timeout_ms=5000, claim_timeout_ms=10000, harness_budget_s=150, witness_per_harness=2, dual_paths=8),
    "thorough": dict(branch_timeout_ms=10000, claim_timeout_ms=120000, harness_budget_s=600, witness_per_harness=6, dual_paths=40),
}

EXIT_OK, EXIT_VIOLATION, EXIT_HARNESS = 0, 1, 3


def _repo_funcs_profiler(acc, repo_file):
    def prof(frame, event, arg):
        if event == "call":
            co = frame.f_code
            if co.co_filename == repo_file:
                acc.add(getattr(co, "co_qualname", co.co_name))
    return prof


def _innermost_repo_frame(tb, repo_file):
    best = None
    for fr in tb:
        if os.path.realpath(fr.filename) == repo_file:
            best = fr
    return best


def run_harness(job):
    """worker: one harness instance -> summary dict (picklable)"""
    prop_mod, spec, cfg, seed = job
    t_start = time.time()
    out = {"name": spec["name"], "fn": spec["fn"], "params": spec.get("params", {}), "twin": spec.get("twin", False),
           "paths": 0, "decisions": 0, "queries": 0, "q_sat": 0, "q_unsat": 0, "q_unknown": 0, "solver_s": 0.0,
           "claims": {}, "candidates": [], "inconclusive": [], "functions": [], "witness_ok": 0,
           "witness_div": [], "errors": [], "path_kinds": {}, "samples": []}
    try:
        from . import core, symstr
        from .symctx import SymCtx
        from .api import ConcreteCtx, ClaimFailed, AssumptionNotMet, Allowed
        import z3
        S = core.load_module()
        if not getattr(S, "_symx_regex", None):
            S._symx_regex = symstr.install_regex(S)
        repo_file = os.path.realpath(S.__file__)
        mod = importlib.import_module(prop_mod)
        fn = getattr(mod, spec["fn"])
        params = spec.get("params", {})
        setup = getattr(mod, "setup_module", None)
        if setup:
            setup(S)
        budget = spec.get("budget_s", cfg["harness_budget_s"])
        claim_to = spec.get("claim_timeout_ms", cfg["claim_timeout_ms"])
        funcs = set()

        def explore(tag_base, max_paths, collect):
            ex = core.Explorer(timeout_ms=spec.get("branch_timeout_ms", cfg["branch_timeout_ms"]), tag_base=tag_base, max_paths=max_paths)
            ex.seed = spec.get("seed")      # seeded path: branches follow this input; claims are still decided for every input on that path
            holder = {}
            sigs = []
            first = [True]
            witnesses = []
            probes = out.setdefault("_probes", [])
            if spec.get("seed") and not probes:
                probes.append(dict(spec["seed"]))     # the seed itself is also run concretely

            def one_path(ex_):
                if time.time() - t_start > budget and collect:
                    raise core.Unsupported("harness wall budget exhausted")
                ctx = SymCtx(S, ex_, claim_to)
                ctx.only_claim = spec.get("only_claim")
                holder["ctx"] = ctx
                prof = None
                if first[0] and collect:
                    prof = _repo_funcs_profiler(funcs, S.__file__)
                    sys.setprofile(prof)
                try:
                    try:
                        fn(ctx, **params)
                    except Allowed:
                        pass
                finally:
                    if prof is not None:
                        sys.setprofile(None)
                        first[0] = False
                return ctx

            # run_all with inline handling so that we can use ctx of failing paths
            results = []
            ex.todo = [([], None)]
            npaths = 0
            while ex.todo:
                if npaths >= max_paths:
                    results.append(("truncated", None, None, "max_paths"))
                    break
                # 'mixed': alternate deepest-first with shallowest-first (generational) so that early decisions are flipped within the budget too
                prefix, pmodel = ex.todo.pop(0) if (spec.get("order") == "mixed" and npaths % 2 == 1) else ex.todo.pop()
                ex.reset_path()
                ex.prefix, ex.prefix_model = prefix, pmodel
                core.EX = ex
                holder.clear()
                kind, val = "ok", None
                try:
                    one_path(ex)
                except core.PathAbort as e:
                    kind, val = "abort", str(e)
                except core.Unsupported as e:
                    kind, val = "unsupported", str(e)
                except z3.Z3Exception as e:
                    kind, val = "unsupported", "z3: %s" % e
                except Exception as e:
                    kind, val = "exc", e
                npaths += 1
                ctx = holder.get("ctx")
                results.append((kind, val, ctx, list(ex.trace)))
                sig = (kind, tuple(ex.trace), tuple((r["claim"], r["verdict"]) for r in (ctx.records if ctx else [])),
                       type(val).__name__ if kind == "exc" else None)
                sigs.append(sig)
                if not collect:
                    continue
                out["path_kinds"][kind] = out["path_kinds"].get(kind, 0) + 1
                if ctx is not None:
                    for r in ctx.records:
                        c = out["claims"].setdefault(r["claim"], {"proved": 0, "cex": 0, "unknown": 0, "trivial": 0, "solver_s": 0.0})
                        v = r["verdict"]
                        if v.startswith("proved"):
                            c["proved"] += 1
                            if r.get("trivial"):
                                c["trivial"] += 1
                        elif v == "cex":
                            c["cex"] += 1
                            if len([x for x in out["candidates"] if x["claim"] == r["claim"]]) < 4:
                                out["candidates"].append({"kind": "claim", "claim": r["claim"], "inputs": r["inputs"],
                                                          "unconfirmed": r["unconfirmed_path"]})
                                if r.get("inputs_alt"):
                                    out["candidates"].append({"kind": "claim", "claim": r["claim"], "inputs": r["inputs_alt"],
                                                              "unconfirmed": r["unconfirmed_path"]})
                        else:
                            c["unknown"] += 1
                            if len(out["inconclusive"]) < 50:
                                out["inconclusive"].append({"claim": r["claim"], "trace_len": len(ex.trace)})
                            for pr in r.get("probes", []):
                                if len(probes) < 12:
                                    probes.append(pr)
                        c["solver_s"] += r.get("solver_s", 0.0)
                if kind == "exc":
                    tb = traceback.extract_tb(val.__traceback__)
                    fr = _innermost_repo_frame(tb, repo_file)
                    where = fr.name if fr else "harness"
                    if fr is None:
                        out["errors"].append("harness exception: %s\n%s" % (repr(val), "".join(traceback.format_tb(val.__traceback__)[-4:])))
                    cname = "exception:%s:%s" % (type(val).__name__, where)
                    c = out["claims"].setdefault(cname, {"proved": 0, "cex": 0, "unknown": 0, "trivial": 0, "solver_s": 0.0})
                    c["cex"] += 1
                    if len([x for x in out["candidates"] if x["claim"] == cname]) < 3 and ctx is not None:
                        try:
                            inp = ctx.witness_inputs()
                        except Exception:
                            inp = None
                        if inp is not None:
                            out["candidates"].append({"kind": "exception", "claim": cname, "inputs": inp,
                                                      "exc_type": type(val).__name__, "where": where,
                                                      "line": fr.lineno if fr else None,
                                                      "unconfirmed": ex.unconfirmed})
                        else:
                            out["inconclusive"].append({"claim": cname, "why": "no witness for exception path"})
                elif kind == "unsupported":
                    if len(out["inconclusive"]) < 50:
                        out["inconclusive"].append({"claim": "<path>", "why": val})
                elif kind == "ok" and ctx is not None and len(witnesses) < cfg["witness_per_harness"]:
                    if ctx.records and all(r["verdict"].startswith("proved") for r in ctx.records):
                        try:
                            w = ctx.witness_inputs()
                        except Exception:
                            w = None
                        if w is not None:
                            witnesses.append(w)
                if kind == "ok" and ctx is not None and len(out["samples"]) < 2 and ctx.records:
                    try:
                        w = ctx.witness_inputs()
                    except Exception:
                        w = None
                    out["samples"].append({"harness": spec["name"], "path_decisions": len(ex.trace),
                                           "claims": [(r["claim"], r["verdict"]) for r in ctx.records][:12],
                                           "witness_inputs": w})
            return ex, sigs, witnesses

        ex, sigs, witnesses = explore(100001, spec.get("max_paths", 200000), True)
        out["paths"] = len(sigs)
        out["decisions"] = ex.decisions
        for k in ("queries", "q_sat", "q_unsat", "q_unknown"):
            out[k] = getattr(ex, k)
        out["solver_s"] = round(ex.solver_time, 3)
        out["functions"] = sorted(funcs)
        # silent-concretisation guard: re-run a prefix of the exploration on a disjoint tag base
        if cfg["dual_paths"] and not spec.get("no_dual"):
            n = min(cfg["dual_paths"], len(sigs))
            ex2, sigs2, _ = explore(500001, n, False)
            def _norm(sg):
                # verdicts that timed out are not comparable between runs
                return (sg[0], sg[1], tuple(c for c, v in sg[2]), sg[3])
            unk = any(v == "unknown" for sg in sigs[:n] + sigs2[:n] for c, v in sg[2])
            if (sigs2[:n] != sigs[:n]) if not unk else ([_norm(x) for x in sigs2[:n]] != [_norm(x) for x in sigs[:n]]):
                out["errors"].append("tag leak: exploration differs between tag bases (first %d paths)" % n)
            out["queries"] += ex2.queries
            out["solver_s"] = round(out["solver_s"] + ex2.solver_time, 3)
        # witness validation: proved paths re-run concretely in-process on the same module
        core.EX = None
        tol = spec.get("tol", getattr(mod, "TOL", (1e-6, 1e-9)))
        # undecided claims: concrete probes at inputs in general position (a failing probe becomes a candidate)
        for w in out.pop("_probes", []):
            cctx = ConcreteCtx(S, w, rel=tol[0], abs_=tol[1], stop_on_fail=False)
            cctx.only_claim = spec.get("only_claim")
            try:
                try:
                    fn(cctx, **params)
                except Allowed:
                    pass
            except (AssumptionNotMet, ClaimFailed):
                pass
            except Exception:
                pass
            out["probe_runs"] = out.get("probe_runs", 0) + 1
            for cname, detail in cctx.failed:
                if len([x for x in out["candidates"] if x["claim"] == cname]) < 4:
                    out["candidates"].append({"kind": "claim", "claim": cname, "inputs": w, "unconfirmed": True, "from_probe": True})
        for w in witnesses:
            cctx = ConcreteCtx(S, w, rel=tol[0], abs_=tol[1])
            cctx.only_claim = spec.get("only_claim")
            try:
                try:
                    fn(cctx, **params)
                except Allowed:
                    pass
                out["witness_ok"] += 1
            except ClaimFailed as e:
                out["witness_div"].append({"inputs": w, "claim": e.name, "detail": str(e.detail)})
            except AssumptionNotMet:
                pass
            except Exception as e:
                out["witness_div"].append({"inputs": w, "claim": "exception", "detail": repr(e)})
    except Exception as e:
        out["errors"].append("worker failure: %s\n%s" % (repr(e), traceback.format_exc()))
    out["wall_s"] = round(time.time() - t_start, 2)
    return out


def write_replay(prop_id, prop_mod, spec, cand, tol):
    d = os.path.join(VERIF, "replays", prop_id)
    os.makedirs(d, exist_ok=True)
    blob = {"property": prop_id, "module": prop_mod, "harness": spec["name"], "fn": spec["fn"],
            "params": spec.get("params", {}), "claim": cand["claim"], "kind": cand["kind"],
            "inputs": cand["inputs"], "exc_type": cand.get("exc_type"), "tol": list(tol)}
    h = hashlib.sha1(json.dumps(blob, sort_keys=True).encode()).hexdigest()[:10]
    safe = "".join(ch if ch.isalnum() or ch in "-_." else "_" for ch in (spec["name"] + "__" + cand["claim"]))[:120]
    path = os.path.join(d, "%s_%s.json" % (safe, h))
    with open(path, "w") as f:
        json.dump(blob, f, indent=1, sort_keys=True)
    return path


def run_replay(path, timeout=300):
    """-> ('reproduced'|'not_reproduced'|'assumption'|'error', output)"""
    env = dict(os.environ)
    env["PYTHONPATH"] = VERIF
    try:
        p = subprocess.run([REPLAY_PY, os.path.join(VERIF, "symx", "replay.py"), path], capture_output=True, text=True,
                           timeout=timeout, env=env, cwd=VERIF)
    except subprocess.TimeoutExpired:
        return "error", "replay timeout"
    txt = (p.stdout + p.stderr).strip()
    if p.returncode == 1:
        return "reproduced", txt
    if p.returncode == 0:
        return "not_reproduced", txt
    if p.returncode == 2:
        return "assumption", txt
    return "error", txt


def _rm(path):
    try:
        os.remove(path)
    except OSError:
        pass


def load_known():
    p = os.path.join(VERIF, "known_findings.json")
    if not os.path.exists(p):
        return []
    with open(p) as f:
        return json.load(f).get("findings", [])


def match_known(known, prop_id, signature):
    for k in known:
        if k["property"] == prop_id and fnmatch.fnmatchcase(signature, k["signature"]):
            return k
    return None


def main(argv=None):
    ap = argparse.ArgumentParser()
    ap.add_argument("prop", nargs="?")
    ap.add_argument("--tier", default=os.environ.get("VERIF_TIER", "quick"))
    ap.add_argument("--replay")
    ap.add_argument("--jobs", type=int, default=int(os.environ.get("SYMX_JOBS", "16")))
    ap.add_argument("--only", help="fnmatch filter on harness names (debugging)")
    ap.add_argument("--no-evidence", action="store_true")
    ap.add_argument("-v", action="store_true")
    args = ap.parse_args(argv)
    if args.replay:
        st, txt = run_replay(args.replay)
        print(txt)
        print("replay:", st)
        return 1 if st == "reproduced" else 0
    prop_id = args.prop.upper()
    tier = args.tier if args.tier in TIERS else "quick"
    seed = int(os.environ.get("VERIF_SEED", "0") or 0)
    cfg = dict(TIERS[tier])
    t0 = time.time()
    sys.path.insert(0, VERIF)
    prop_mod = "props.%s" % prop_id.lower()
    mod = importlib.import_module(prop_mod)
    specs = mod.harnesses(tier)
    if args.only:
        specs = [s for s in specs if fnmatch.fnmatchcase(s["name"], args.only)]
    import random
    rnd = random.Random(seed)
    order = list(range(len(specs)))
    rnd.shuffle(order)
    # long harnesses first when the module says so
    order.sort(key=lambda i: -specs[i].get("weight", 1))
    jobs = [(prop_mod, specs[i], cfg, seed) for i in order]
    results = []
    if args.jobs <= 1 or len(jobs) == 1:
        for j in jobs:
            results.append(run_harness(j))
    else:
        ctxm = mp.get_context("fork")
        with ctxm.Pool(min(args.jobs, len(jobs)), maxtasksperchild=200) as pool:
            for r in pool.imap_unordered(run_harness, jobs, chunksize=1):
                results.append(r)
                if args.v:
                    print("  done %-50s paths=%d q=%d unk=%d cand=%d %.1fs" % (r["name"], r["paths"], r["queries"], r["q_unknown"], len(r["candidates"]), r["wall_s"]), flush=True)
    byname = {s["name"]: s for s in specs}
    rdir = os.path.join(VERIF, "replays", prop_id)
    if os.path.isdir(rdir) and not args.only:
        for fn_ in os.listdir(rdir):
            if fn_.endswith(".json"):
                os.remove(os.path.join(rdir, fn_))
    tol = getattr(mod, "TOL", (1e-6, 1e-9))
    known = load_known()
    harness_errors = []
    violations = []
    known_hits = {}
    spurious = 0
    replayed = 0
    twin_ok = {}
    # replay candidates: grouped by signature, in parallel, stopping at the first reproduction per signature
    groups = {}
    for r in results:
        spec = byname[r["name"]]
        for e in r["errors"]:
            harness_errors.append("%s: %s" % (r["name"], e))
        for d in r["witness_div"]:
            # a concrete input on which the real code fails the claim: replayed like any counterexample
            # (typically a witness sitting on a 1e-12 comparison window that floats resolve the other way)
            if d["claim"] == "exception":
                harness_errors.append("%s: witness run raised %s inputs=%s" % (r["name"], d["detail"], json.dumps(d["inputs"])))
            else:
                r["candidates"].append({"kind": "claim", "claim": d["claim"], "inputs": d["inputs"], "unconfirmed": True, "from_witness": True})
        if spec.get("twin"):
            twin_ok[r["name"]] = False
        for cand in r["candidates"]:
            groups.setdefault((r["name"], cand["claim"]), []).append(cand)

    def replay_group(key):
        name, claim = key
        spec = byname[name]
        stol = spec.get("tol", tol)
        outs = []
        for cand in groups[key]:
            path = write_replay(prop_id, prop_mod, spec, cand, stol)
            st, txt = run_replay(path)
            outs.append((cand, path, st, txt))
            if st == "reproduced":
                break
        return key, outs

    from concurrent.futures import ThreadPoolExecutor
    with ThreadPoolExecutor(max_workers=max(1, args.jobs)) as tp:
        group_results = list(tp.map(replay_group, sorted(groups)))
    for (name, claim), outs in group_results:
        spec = byname[name]
        for cand, path, st, txt in outs:
            replayed += 1
            if st == "reproduced":
                if spec.get("twin"):
                    twin_ok[name] = True
                    _rm(path)
                    continue
                sig = "%s::%s" % (name, claim)
                k = match_known(known, prop_id, sig)
                if k is not None:
                    known_hits.setdefault(k["signature"], (k, sig, path))
                elif sig not in [v[0] for v in violations]:
                    violations.append((sig, path, txt))
            else:
                _rm(path)
                if st == "error":
                    harness_errors.append("%s: replay error for %s: %s" % (name, claim, txt[-400:]))
                else:
                    spurious += 1
    for name, ok in twin_ok.items():
        if not ok:
            harness_errors.append("twin harness %s (deliberately wrong oracle) was not refuted: the harness cannot detect violations" % name)

    # ---- evidence -----------------------------------------------------------
    real = [r for r in results if not r["twin"]]
    paths = sum(r["paths"] for r in real)
    decisions = sum(r["decisions"] for r in real)
    claims_total = {}
    for r in real:
        for c, v in r["claims"].items():
            t = claims_total.setdefault(c.split("[")[0], {"proved": 0, "cex": 0, "unknown": 0, "trivial": 0})
            for k in t:
                t[k] += v[k]
    nontrivial = sum(1 for r in real for c, v in r["claims"].items() if v["proved"] - v["trivial"] > 0)
    funcs = sorted(set(f for r in results for f in r["functions"]))
    inconclusive = [dict(h=r["name"], **i) for r in real for i in r["inconclusive"]]
    samples = [s for r in real for s in r["samples"]][:6]
    if not samples:
        samples = [{"harness": r["name"], "paths": r["paths"]} for r in real[:3]]
    ev = {
        "property_id": prop_id,
        "tier": tier,
        "seed": seed,
        "level": "model_checking",
        "coverage": {
            "states": max(paths, 0),
            "transitions": max(decisions, 0),
            "traces_validated_against_impl": sum(r["witness_ok"] for r in real) + replayed,
            "samples": samples,
            "evaluations": sum(r["queries"] for r in results),
            "distinct_nontrivial": nontrivial,
            "rule": "one state = one explored execution path of the real code (a distinct sequence of branch decisions over symbolic inputs); "
                    "transitions = solver-decided branch decisions; a (harness, claim) pair is non-trivial when at least one path needed a solver query "
                    "(the claim did not simplify to true syntactically) and the query returned unsat",
            "exhaustive": False,
            "technique": "bounded symbolic execution of /repo's svgelements.py (module code objects run on z3-backed proxies); "
                         "each claim decided by z3 (unsat = holds for all inputs on the path); counterexamples replayed under /venv/bin/python",
            "source_sha256": _src_digest(),
            "functions_encoded": funcs,
            "bounds": getattr(mod, "BOUNDS", {}).get(tier, getattr(mod, "BOUNDS", {})),
            "outside_claim": getattr(mod, "OUTSIDE", []),
            "stubs": getattr(mod, "STUBS", []),
            "harnesses": len(real),
            "twins_refuted": sum(1 for v in twin_ok.values() if v),
            "twins_total": len(twin_ok),
            "paths_by_outcome": _sum_dicts(r["path_kinds"] for r in real),
            "queries": {"total": sum(r["queries"] for r in results), "unsat": sum(r["q_unsat"] for r in results),
                        "sat": sum(r["q_sat"] for r in results), "unknown": sum(r["q_unknown"] for r in results)},
            "solver_s": round(sum(r["solver_s"] for r in results), 2),
            "claims": claims_total,
            "inconclusive_count": sum(v["unknown"] for v in claims_total.values()) + sum(1 for i in inconclusive if i.get("claim") == "<path>"),
            "inconclusive_examples": inconclusive[:25],
            "counterexamples_replayed": replayed,
            "spurious_models": spurious,
            "known_findings_met": sorted(k for k in known_hits),
            "harness_errors": harness_errors[:10],
            "per_harness": [{"name": r["name"], "paths": r["paths"], "queries": r["queries"], "unknown": r["q_unknown"],
                             "solver_s": r["solver_s"], "wall_s": r["wall_s"]} for r in sorted(real, key=lambda x: -x["wall_s"])[:40]],
        },
        "assumptions": getattr(mod, "ASSUMPTIONS", []) + GLOBAL_ASSUMPTIONS,
        "wall_s": round(time.time() - t0, 2),
        "violations": len(violations),
    }
    if not args.no_evidence and not args.only:
        os.makedirs(os.path.join(VERIF, "evidence"), exist_ok=True)
        with open(os.path.join(VERIF, "evidence", "%s.json" % prop_id), "w") as f:
            json.dump(ev, f, indent=1, sort_keys=True, default=str)
    # ---- report -------------------------------------------------------------
    q = ev["coverage"]["queries"]
    print("%s tier=%s harnesses=%d paths=%d decisions=%d queries=%d (unsat %d, sat %d, unknown %d) solver=%.1fs wall=%.1fs" % (
        prop_id, tier, len(real), paths, decisions, q["total"], q["unsat"], q["sat"], q["unknown"], ev["coverage"]["solver_s"], ev["wall_s"]))
    print("claims: " + ", ".join("%s=%d/%d%s" % (c, v["proved"], v["proved"] + v["cex"] + v["unknown"], ("(unk %d)" % v["unknown"]) if v["unknown"] else "") for c, v in sorted(claims_total.items())[:40]))
    print("witness validations ok=%d, replays=%d, spurious=%d, inconclusive=%d, twins %d/%d" % (
        sum(r["witness_ok"] for r in real), replayed, spurious, ev["coverage"]["inconclusive_count"], ev["coverage"]["twins_refuted"], len(twin_ok)))
    for sigk, (k, sig, path) in sorted(known_hits.items()):
        print("KNOWN-FINDING: property=%s %s (%s) replay=%s" % (prop_id, k["what"], sig, path))
    if harness_errors:
        for e in harness_errors[:20]:
            print("HARNESS-ERROR: " + e, file=sys.stderr)
    if violations:
        # every entry was reproduced on the plain module by replay: reported whether or not the symbolic side has
        # harness errors (a code change can also make a deliberately wrong twin come true)
        for sig, path, txt in violations:
            print("VIOLATION property=%s replay=%s" % (prop_id, path))
            print("  signature: %s" % sig)
            print("  " + txt.replace("\n", "\n  ")[-600:])
        return EXIT_VIOLATION
    if harness_errors:
        return EXIT_HARNESS
    return EXIT_OK


GLOBAL_ASSUMPTIONS = [
    "Python float arithmetic is modelled as exact real arithmetic (z3 Real); rounding, overflow and underflow are outside the claim; every counterexample is re-validated in IEEE floats by replay",
    "sin/cos/tan/atan2/acos/sqrt are modelled by algebraic axioms (c^2+s^2=1 tokens with exact angle addition, y>=0 and y*y=x, range and quadrant facts); nothing else is assumed of libm",
    "tau is the exact rational value of the double 6.283185307179586; radians()/degrees() are tau/360 and 360/tau exactly",
    "numbers travel through concrete text as unique 6-digit tag numerals, so C-level number formatting/parsing precision (%.12G, %G, %f, float()) is outside the claim; expat is trusted",
    "interpreter python3-vt 3.11 for the symbolic runs, /venv/bin/python 3.12 for replays; numpy/scipy/PIL absent as in /venv",
    "bounded: only the structure sizes stated under coverage.bounds are explored; inconclusive (unknown/unsupported) paths are listed and not counted as success",
]


def _sum_dicts(ds):
    out = {}
    for d in ds:
        for k, v in d.items():
            out[k] = out.get(k, 0) + v
    return out


def _src_digest():
    with open(os.path.join(REPO, "svgelements", "svgelements.py"), "rb") as f:
        return hashlib.sha256(f.read()).hexdigest()


if __name__ == "__main__":
    sys.exit(main())
