#!/usr/bin/env python3
"""confirm a seeded mutant in a scratch worktree: patch applies, module imports, the existing suite's
pass/fail sets equal the baseline, the demo fails with the patch and passes without it.
usage: confirm_seed.py <worktree> <patch.diff> <demo.py> <out.json>"""
import json
import os
import re
import subprocess
import sys

wt, patch, demo, out = sys.argv[1:5]
base = json.load(open("/root/.vp/BASELINE.json"))
must_pass = set(base["stable_pass"])


def sh(cmd, **kw):
    return subprocess.run(cmd, shell=True, cwd=wt, capture_output=True, text=True, **kw)


def run_demo():
    env = dict(os.environ, PYTHONPATH=wt)
    p = subprocess.run(["/venv/bin/python", demo], cwd=wt, capture_output=True, text=True, env=env, timeout=600)
    return p.returncode, (p.stdout + p.stderr)[-1500:]


res = {"worktree": wt, "patch": patch}
assert sh("git status --short -- svgelements").stdout.strip() == "", "worktree not clean"
res["demo_clean"] = run_demo()
a = sh("git apply %s" % patch)
res["applies"] = a.returncode == 0
if res["applies"]:
    try:
        res["demo_mutant"] = run_demo()
        junit = os.path.join(wt, "_junit.xml")
        t = sh("/venv/bin/python -m pytest -q -p no:cacheprovider --timeout=900 --continue-on-collection-errors --junitxml=%s test" % junit, timeout=3000)
        res["pytest_tail"] = t.stdout[-400:]
        import xml.etree.ElementTree as ET
        passed = set()
        failed = set()
        for tc in ET.parse(junit).getroot().iter("testcase"):
            name = "%s::%s" % (tc.get("classname"), tc.get("name"))
            name = name.replace(".Test", ".Test")
            # classname like test.test_angle.TestElementAngle
            if any(ch.tag in ("failure", "error") for ch in tc):
                failed.add(name)
            elif not any(ch.tag == "skipped" for ch in tc):
                passed.add(name)
        res["n_passed"] = len(passed)
        res["baseline_tests_now_failing"] = sorted(must_pass - passed)
        os.remove(junit)
    finally:
        sh("git checkout -- svgelements")
res["ok"] = bool(res["applies"] and res["demo_clean"][0] == 0 and res.get("demo_mutant", [0])[0] != 0 and not res.get("baseline_tests_now_failing", ["x"]))
json.dump(res, open(out, "w"), indent=1)
print("ok" if res["ok"] else "NOT OK", out)
