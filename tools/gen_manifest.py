#!/usr/bin/env python3
"""Regenerates /verif/MANIFEST.json from the table below (kept next to the checks so the two stay in sync)."""
import json
import os

VERIF = os.path.dirname(os.path.dirname(os.path.abspath(__file__)))

TECH = ("bounded symbolic execution of the real svgelements.py on z3-backed proxies (symx); each claim decided by z3 "
        "(QF_NRA/LIA; unsat = holds for all inputs on the path), counterexamples replayed on the unmodified module")

NOTE_COMMON = ("Floats modelled as exact reals; libm by algebraic axioms; numbers cross text as tag numerals (C-level formatting precision outside); "
               "structure bounded as listed in evidence coverage.bounds; inconclusive paths are listed, never counted as success. ")

CHECKS = {
    "C04": dict(
        text="All matrix-algebra laws (associativity with points and matrices, two-sided inverse, identity, every pre_/post_ operation with and "
             "without centre, constructors) are proved for all real 6-tuples/points/arguments; transform strings are proved against a "
             "right-most-first oracle for every list of <=2 (thorough <=3) functions over all 11 names, arities, angle/length units, separators and case, with all numbers symbolic. Lengths with units (in, pt, pc) are placed before and after functions they do not commute with and next to each other, and must combine as the resolved values do.",
        ref="DESIGN.md 4/C04",
        note=NOTE_COMMON + "Outside: lists longer than the bound, numeric spellings (C01), tan at its poles."),
}

CHECKS["C11"] = dict(
    text="Exhaustive over the 10 align values x {absent, meet, slice} (+ preserveAspectRatio absent): with element position/size, viewBox, ppi and caller "
         "sizes all symbolic, the matrix of the library's transform string is proved equal to the SVG 2 8.2 algorithm, and the inside/over, touching and "
         "alignment facts are proved on the library's matrix directly; through Viewbox.viewbox_transform, Viewbox(...).transform and the real SVG.parse "
         "(sizes from attributes with units, percentages, caller width/height, viewBox default); incomplete viewBox gives identity; zero sizes disable rendering.",
    ref="DESIGN.md 4/C11",
    note=NOTE_COMMON + "Outside: the 12-decimal formatting of the transform string; nested svg depth > 2.")
CHECKS["C12"] = dict(
    text="Every unit's value() is proved against exact CSS ratios for all amounts/ppi/references/font metrics/viewBoxes (1e-6 relative band for the library's "
         "0.0393701 in/mm constant); unresolved lengths stay Length; all 196 ordered unit pairs x {+,-,/,<,<=,>,>=,==,!=} are proved to agree with the same "
         "operation on resolved values (ValueError accepted only across unit families); unary ops, copies and to_mm/to_cm/to_inch likewise.",
    ref="DESIGN.md 4/C12",
    note=NOTE_COMMON + "Outside: units beyond the 14 listed; equality across inch/metric when values are exactly equal; division by a zero length.")

CHECKS["C01"] = dict(
    text="The real lexer and Path builder run on path data whose every number is symbolic; for every command sequence within the bound (leading move + all "
         "sequences of <=2, thorough <=3, commands over the 20 letters with implicit repetition, smooth chains, SVG 2 segment-completing z, separator styles) the "
         "segment count, kinds and every start/control/end coordinate are proved equal to a specification interpreter, plus connectivity and close targets.",
    ref="DESIGN.md 4/C01",
    note=NOTE_COMMON + "Arc._svg_parameterize is replaced by a recorder in this check (arguments compared; geometry is C05). Outside: longer sequences.")

CHECKS["C01"]["text"] += (" Tokenisation: templates of adjacent tokens (every number spelling class incl. signs, leading dot, exponents, separator-free "
                          "forms '1-2' and '.5.5', packed arc flags, any comma/whitespace character of the XML wsp set) with every digit, sign, flag and separator "
                          "a symbolic character are run through the module's own token regexes (interpreted from their compiled patterns) and proved against maximal-munch values.")
CHECKS["C17"] = dict(
    text="For every way a can end x every way b can begin (all 2-command sequences after a leading move, cut between them; 3-command chains cut at every "
         "boundary and into three pieces) Path(a)+b, +=, parse(b) and Move-segment+b are proved segment-for-segment equal to the specification interpreter "
         "run on the unsplit string, with all numbers symbolic; Path+Path and Path+Shape keep both geometries and leave operands unchanged.",
    ref="DESIGN.md 4/C17",
    note=NOTE_COMMON + "Arc._svg_parameterize replaced by a recorder. Outside: longer sequences; Path.append/extend with strings.")

CHECKS["C09"] = dict(
    text="Path().parse on symbolic strings through the module's own token regexes: ALL strings of length <= 4 (thorough 5) over the whole Unicode range, and for "
         "each of the 20 commands a valid template (with and without leading move) with a fully symbolic character replacing or inserted before every position "
         "and after every truncation; on every path the outcome is proved to be return or ValueError, the retained segments are checked to have numeric "
         "coordinates, and d/d(relative)/bbox/transform+reify/length are executed on a witness of the path (concolic).",
    ref="DESIGN.md 4/C09",
    note=NOTE_COMMON + "Two known findings (fragments whose first command is not a moveto), see known_findings.json. Outside: longer strings outside the template "
         "families, wall-clock promptness, IEEE underflow of arc radii; post-parse operations are checked on one witness per path, not for all values.")

CHECKS["C16"] = dict(
    text="Real Path.reverse / Subpath.reverse on paths parsed from skeleton data with symbolic coordinates and arc sweeps: for a structured family of <=3 subpaths "
         "(open/closed, zero and non-zero closes, subpaths without their own move, move-only and single-segment subpaths) and every 2-command sequence, the drawn "
         "segments of the result are proved equal to the abstract reversal (order, swapped controls, negated sweep), connected, closed-stays-closed; reverse twice "
         "restores; each subpath view reversed alone changes only that subpath; reverse commutes with a symbolic matrix (whole path and views).",
    ref="DESIGN.md 4/C16",
    note=NOTE_COMMON + "Arc._svg_parameterize replaced by a recorder with symbolic sweep. Two known findings (views of closed subpaths without their own move; double closepath). "
         "Outside: arc point(t) symmetry, fragments whose first segment has no start point.")

CHECKS["C18"] = dict(
    text="Aliasing as information flow: for every element kind x every applicable derivation (copy, *M, abs, Path(x), Path(subpath), copy(subpath), subpath*M, group "
         "copy, ~, @, +) the real objects are built, one side is mutated through every public mutation (values written are fresh solver variables), and the value "
         "snapshot of the other side is proved unchanged for all values; operator purity (operands of *, +, abs, ~ unchanged, incl. the other operand) and value "
         "equality of copies; single mutations for all kinds and all ordered pairs for Path/Polyline/Rect/Group (thorough: pairs for all, triples for Path/Group). Derivations include segment + segment and segment + string.",
    ref="DESIGN.md 4/C18",
    note=NOTE_COMMON + "The property is value-independent, so the solver's role is to exclude coincidences: a shared sub-object makes a fresh variable appear in the "
         "untouched snapshot and the equality query satisfiable. Outside: longer histories; colour mutations use concrete values; Image pixel data.")

CHECKS["C13"] = dict(
    text="Color.parse on symbolic strings through the module's own regexes and keyword chain: ALL strings of ASCII letters of each length 3..20 (any case) are proved to "
         "yield the SVG table value whenever they spell one of the 147 keywords (+transparent, none); all 3/4/6/8-digit hex strings; rgb()/rgba() with symbolic decimal "
         "digits (clamping, negative), percentages and hsl()/hsla() with symbolic reals against the CSS formulas (hue modulo a turn); getters, setters (clamped, "
         "only their field), the rgb/bgr/argb/rgba packings, opacity, equality over all 32-bit values (four symbolic 8-bit fields, integer div/mod encoding).",
    ref="DESIGN.md 4/C13",
    note=NOTE_COMMON + "Bit-or of symbolic ints only after the solver proves disjoint bit fields on the path. Outside: Color(c.hex)==c and hex strings (C-level %02x), "
         "hue getter and h/s/l setter round trips, angle units inside hsl().")

CHECKS["C03"] = dict(
    text="The real SVG.parse (expat, value inheritance, transform-string concatenation, use expansion, viewport transforms, render, reify) runs on generated documents whose "
         "every number is symbolic (tag numerals); for ~60 skeletons x reify in {True, False} (nesting <= 3: svg/g/defs/use/nested svg, transform lists on any element, "
         "units and percentages, display:none, dangling/nested use, caller size and transform) the count, order and kinds of rendered shapes and every absolute "
         "defining point of abs(Path(shape)) are proved equal to a fold of reference matrices over the ancestor chain applied to the SVG 2 decomposition. Also: rounded rectangles under non-uniform scale (reify True/False) and percentage content after leaving two nested viewports.",
    ref="DESIGN.md 4/C03",
    note=NOTE_COMMON + "Outside: deeper nesting, round shapes under non-similarity transforms (C02/C06), text/images, stylesheet effects (C14).")

CHECKS["C14"] = dict(
    text="Real SVG.parse on documents with a <style> sheet; every source of a property carries its own solver variable (stroke widths, opacities) or its own colour keyword, "
         "so 'which source won' is decided for all values: every single source and every pair of sources among {attribute, *, type, .class, type.class, #id, comma list, "
         "inline} in both sheet orders on the shape and on its parent, same-selector repeats, two classes on one element, inheritance chains over three levels and through "
         "use, currentColor from each level or the caller, fill-/stroke-opacity folded into alpha, display:none by attribute/inline/rule, and the reify factor sqrt|det| "
         "(accumulated or viewport-only for non-scaling strokes) for symbolic transforms of either orientation. Stroke widths with CSS units resolve by the CSS ratios and the parser's ppi through every source.",
    ref="DESIGN.md 4/C14",
    note=NOTE_COMMON + "Oracle: CSS specificity then sheet order. One known finding (two class rules on one element), see known_findings.json. Outside: rules selecting the "
         "root svg, unsupported selector syntaxes, !important, deeper nesting.")

CHECKS["C20"] = dict(
    text="Real _write_node/string_xml/write_xml (plain and .svgz) followed by the real SVG.parse, with every number symbolic (tags cross str(), %f and expat): trees "
         "built through the constructors (every shape kind x transform class incl. reflection/general matrix/skew/non-uniform scale x paint x viewBox x group, also "
         "reified first, also with exact-zero attributes) and the parsed documents of the C03 family (reify True/False); proved per path: output is well-formed XML, "
         "same shapes in the same order, equal absolute defining points, fill/stroke value incl. alpha, stroke width, ids, and a stable second generation.",
    ref="DESIGN.md 4/C20",
    note=NOTE_COMMON + "Outside: six-decimal precision of written matrices and other C-level formatting, images with pixel data, text.")

CHECKS["C10"] = dict(
    text="Real SVG.parse (default error mode) on documents with one faulty element of each kind {path, rect, circle, ellipse, line, polyline, polygon, g, svg, use, "
         "text, image} next to / inside / before sibling shapes; the faulty attribute value is a template with 1-2 fully symbolic characters (they cross expat as "
         "placeholders and become symbolic again in the module's regex/number parsers) or one of ~200 catalogued malformed values, for transform, fill, stroke, "
         "widths, opacities, lengths, points, viewBox, preserveAspectRatio, d, style, href; dangling/self/ancestor/mutually cyclic use. Proved per path: no "
         "exception leaves parse, and every element outside the faulty subtree has the geometry and paint of the parse without the faulty element. The fault vocabulary includes lengths that cannot be resolved (em/ex/vw) in sizes and in transform lists, and a nested svg with a viewBox.",
    ref="DESIGN.md 4/C10",
    note=NOTE_COMMON + "Outside: faults in stylesheet text, more than one fault per document, symbolic non-ASCII characters reaching str.lower() (paths end as unsupported).")

CHECKS["C02"] = dict(
    text="Through the real __mul__/__imul__/reify/point code with matrix, coordinates and parameter all symbolic: (X*M).point(t) = M(X.point(t)) for all t and all real "
         "matrices for Move/Line/Close/Quadratic/Cubic, composition (X*A)*B = X*(A*B), operand purity; paths and subpaths (*, abs, reify, segments(transformed)); "
         "Rect/SimpleLine/Polyline/Polygon decompositions under general, positive/mixed/negative scale and skew matrices incl. every Rect.reify branch; for arcs and "
         "circles/ellipses M(A.point_at_t(tau)) = (A*M).point_at_t(sigma tau) for a free angle under each generator of the similarity group (translation, uniform "
         "scale, rotation by a symbolic angle, reflection; stored points compose exactly for all matrices), and refuted (known finding) for general matrices.",
    ref="DESIGN.md 4/C02",
    note=NOTE_COMMON + "Square roots of polynomials that are perfect squares modulo the tokens' identities c^2+s^2=1 are simplified exactly (sympy Groebner reduction; sound). "
         "Two known findings (arcs / round shapes under non-similarity transforms). Outside: Arc.get_start_t / t_at_point / point_at_angle quadrant logic.")

CHECKS["C06"] = dict(
    text="Real constructors (positional, keyword, attribute dict), _validate_rect, segments, d, Path(shape), ==, bbox, length, reify with all numbers symbolic: the rect "
         "corner-radius decision table (rx/ry omitted, zero, number, over-large, percentage: 25 cells x 3 routes) against the SVG 2 auto/clamp rules; sharp and rounded "
         "rect, circle, ellipse, line, polyline, polygon decompositions against the SVG 2 chapter 10 paths (start, direction, order, arc centres, quarter sweeps, "
         "conjugate radii, ellipse equation at a free parameter); shape = Path(shape) = Path(shape.d()), equal boxes and lengths for straight shapes, also under a "
         "symbolic matrix; rounded rects under axis-aligned scales incl. reified attributes; degenerate shapes give no segments.",
    ref="DESIGN.md 4/C06",
    note=NOTE_COMMON + "Outside: round shapes under non-similarity transforms (C02 finding), Path(shape.d()) and bbox/length for curved shapes (C05/C08/C15), negative radii.")

CHECKS["C07"] = dict(
    text="Real Path.svg_d / per-segment d() / Point.__str__ followed by the real parser, numbers crossing the text as tags: source paths (parsed from skeleton data and, "
         "independently, built from segment objects by the specification interpreter) for every 2-command sequence over the 18 non-arc letters, smooth chains, multiple "
         "subpaths, closes, subpaths without a move and segment-completing z, printed with relative x smooth in {None, False, True}^2 via Path.d, str() and "
         "Subpath.d; proved: same count/kinds, every stored point equal (1e-9), second generation a fixed point. Arcs: native arcs with symbolic centre, radii, "
         "rotation, sweep printed absolute/relative and re-read: radii, rotation direction, end points and both flags (all four combinations as solver paths).",
    ref="DESIGN.md 4/C07",
    note=NOTE_COMMON + "Arc re-read uses the argument recorder (that those arguments give back the same centre/sweep is C05). Outside: the 12-digit / 6-digit (%G) formatting itself.")

CHECKS["C08"] = dict(
    text="Real bbox code with all control points symbolic: Move/Line/Close exact; QuadraticBezier.bbox contains B(t) for ALL t in [0,1] and each side is attained at an "
         "end point or the stationary point; CubicBezier._real_minmax contains B(t) for all t per branch (nlsat; branches that stay unknown within the budget are "
         "listed as inconclusive); zero-sweep Arc box ordered and containing the chord; Arc.bbox for non-zero sweep on seeded paths (the symbolic path of each of 36 concrete "
         "arcs, inputs symbolic within the arc's band: candidate angles are stationary points and no stationary angle atan + k pi (k = -5..5) inside the sweep is skipped); Path/Subpath (transformed and not)/Group/Use boxes contain every point of "
         "every member, stay within the defining-point hull, equal the union of member boxes, and are grown by half the implicit (sqrt|det| scaled) or plain stroke "
         "width exactly when a stroke is painted.",
    ref="DESIGN.md 4/C08",
    note=NOTE_COMMON + "Arc.get_start_t is a contract stub in the arc-box harnesses. Outside: Arc.bbox beyond the seeded paths/bands, the analysis step from stationary points to containment, tightness of cubic boxes.")

CHECKS["C05"] = dict(
    text="Real Arc.__init__ -> _svg_parameterize (also through Path('M.. A..') and relative 'a') with start, end, radii and rotation symbolic, all four flag combinations and "
         "both radius-correction branches; the function's intermediate values are captured with sys.settrace and every SVG F.6.5/F.6.6 fact is proved as a lemma over "
         "generalised intermediates: primed coordinates, radii scaled by exactly sqrt(Lambda) iff Lambda > 1 (then the end points just fit), non-negative radicand, "
         "c^2, sign of the root by fA=fS, centre, both end points on the ellipse, prx/pry = rotated semi-axes, sign(u x v) = sign(root), positive direction iff the "
         "sweep flag, more than a half turn iff the large-arc flag; every point_at_t(tau) satisfies the ellipse equation; coincident end points draw nothing; zero "
         "radii give the chord's points, length and ordered box; negative radii act as absolute values. Negative radii: through path data, through Path.arc's arguments and through the endpoint-form constructor.",
    ref="DESIGN.md 4/C05",
    note=NOTE_COMMON + "Outside: Arc.get_start_t/t_at_point (arc.point(t) replaced by point_at_t + end points on the ellipse), the exact half-turn boundary, IEEE rounding "
         "(the acos clamp is unreachable in exact reals). Some branch-feasibility queries time out: those paths are explored as unconfirmed and listed.")

CHECKS["C15"] = dict(
    text="Decidable parts of the length/point law on the real code: Line/Close length = Euclidean distance for all end points and unchanged by rotation (symbolic angle), "
         "translation, reflection, reversal, scaled by |s| under uniform scaling; Shape._calc_lengths/length/point on paths of <=5 segments with moves and zero-length "
         "segments at every position and segment lengths as arbitrary non-negative solver variables: total = sum without moves, point(0)/point(1), and for ALL t the "
         "cumulative-interval law (right segment, right local fraction, no division by zero); Arc.length circle shortcut = r|sweep| for all centres/radii/sweeps; "
         "QuadraticBezier.length on the degenerate (collinear, doubling back) branch against the closed form; path and shape lengths are isometry-invariant given "
         "invariant segment lengths. point(t) after reverse() of a path or of its subpath view follows the new order (cached lengths are discarded).",
    ref="DESIGN.md 4/C15",
    note=NOTE_COMMON + "NOT covered (not applicable to this technique, see DESIGN.md): 'equals the true arc length to within the requested error' for non-degenerate "
         "quadratics (logarithm closed form), cubics (adaptive subdivision whose depth depends on values) and elliptical arcs (elliptic integral): no SMT theory expresses the "
         "integral. This check therefore claims the composition law and the closed-form cases only.")

CHECKS["C19"] = dict(
    text="Real Arc.as_cubic_curves/as_quad_curves and Path.approximate_arcs_with_cubics/_with_quads. Kernel: on the unit circle, one slice of symbolic angle phi in (0, 36deg] "
         "(either direction), the real curve's point at s = 1/4, 1/2, 3/4 is within 1e-3 (cubic) / 1e-2 (quadratic) of the circle, within a quarter of that for phi <= 18deg and a "
         "sixteenth for phi <= 9deg (nlsat on the denominator-cleared rational parametrisation of the angle tokens). Equivariance: for arbitrary centre, radii (ratio <= 100), "
         "rotation, start parameter, sweep in +-[1e-3, 7] and n = 1..3 slices (explicit and default count) every control point is proved to be the affine image of the kernel's, "
         "so every curve is an affine image of a kernel curve. Structure: n curves, first starts at the stored start, last ends at the stored end, consecutive curves join, "
         "interior joints on the ellipse, default count = ceil(|sweep|/30deg) up to 14 slices, zero sweep gives no curves; in a path the arc is replaced in place, the other "
         "segments keep their values and the path stays connected. A path with two arcs (the second one last) has both converted.",
    ref="DESIGN.md 4/C19",
    note=NOTE_COMMON + "Arc.get_start_t is replaced by its contract in the symbolic run (the replay runs the real one). Outside: the error bound for every curve parameter s "
         "(decided at s = 1/4, 1/2, 3/4; thorough tier attempts symbolic s), control-point formulas for more than 4 slices, the Lipschitz step from the circle to the ellipse (paper).")

NOT_APPLICABLE = {
}

PENDING_REASON = "check not built yet in this revision (planned: see DESIGN.md section 4); not claimed until its harness exists and runs clean"


def main():
    props = [json.loads(l)["id"] for l in open(os.path.join(VERIF, "properties.jsonl"))]
    checks = []
    for pid in props:
        if pid not in CHECKS:
            continue
        c = CHECKS[pid]
        checks.append({
            "property_id": pid,
            "quick_cmd": "./check %s --tier quick" % pid,
            "thorough_cmd": "./check %s --tier thorough" % pid,
            "evidence_file": "/verif/evidence/%s.json" % pid,
            "replay_cmd_template": "./check --replay {path}",
            "engine": "symx",
            "level_claimed": {"category": "model_checking", "text": c["text"], "design_ref": c["ref"]},
            "level_note": c["note"],
            "technique": c.get("technique", TECH),
        })
    na = []
    for pid in props:
        if pid in CHECKS:
            continue
        na.append({"property_id": pid, "reason": NOT_APPLICABLE.get(pid, PENDING_REASON)})
    man = {
        "version": 1,
        "setup_cmd": "./setup.sh",
        "hooks": {
            "guard": "SVGELEMENTS_VERIF",
            "enable": "no source hooks: the harness re-binds math/float/int/regex globals of the imported module at run time (export SVGELEMENTS_VERIF=1 is set by ./check for documentation only)",
            "baseline_off_cmd": "cd /repo && /venv/bin/python -m pytest -ra -q -p no:cacheprovider --timeout=900 --continue-on-collection-errors",
            "source_commits": [],
            "add_only": True,
        },
        "engines": [{"name": "symx", "path": "/verif/symx", "serves_properties": [c["property_id"] for c in checks],
                     "kind_free_text": "DART-style symbolic executor for the real Python module: float/int/str proxies carrying z3 terms, "
                                       "regex interpreter over the module's own compiled patterns, z3 as the deciding step, concrete replay under /venv"}],
        "checks": checks,
        "not_applicable": na,
        "notes": "exit codes of ./check: 0 held on everything explored, 1 VIOLATION (after a reproducing replay), 3 harness error (tag leak, "
                 "witness divergence, unrefuted twin, worker failure). known findings: /verif/known_findings.json.",
    }
    with open(os.path.join(VERIF, "MANIFEST.json"), "w") as f:
        json.dump(man, f, indent=1)
    print("claimed:", [c["property_id"] for c in checks], "not_applicable:", len(na))


if __name__ == "__main__":
    main()
