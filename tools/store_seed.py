#!/usr/bin/env python3
"""store a confirmed seeded mutant under /verif/seeded/<name>/
usage: store_seed.py <PROP> <n> <worktree> <caught_by comma list or 'none'> [note]"""
import json, os, shutil, sys
prop, n, wt, caught = sys.argv[1:5]
note = sys.argv[5] if len(sys.argv) > 5 else ""
conf = json.load(open("/tmp/confirm_%s_%s.json" % (prop, n)))
assert conf["ok"], conf
d = "/verif/seeded/%s_mut%s" % (prop, n)
os.makedirs(d, exist_ok=True)
shutil.copy(os.path.join(wt, "mut%s.diff" % n), os.path.join(d, "patch.diff"))
shutil.copy(os.path.join(wt, "mut%s_demo.py" % n), os.path.join(d, "demo.py"))
desc = open(os.path.join(wt, "mut%s.txt" % n)).read()
meta = {
    "property": prop,
    "breaks": desc.strip(),
    "needs_to_manifest": desc.strip().split("\n")[-2:] if desc.strip() else [],
    "origin": "independent sub-agent given only the property text and a scratch worktree",
    "confirmed_by": {
        "patch_applies_to_HEAD": conf["applies"],
        "demo_on_clean_tree_exit": conf["demo_clean"][0],
        "demo_on_mutant_exit": conf["demo_mutant"][0],
        "suite": "full pytest run in the scratch worktree: %d passed, baseline stable-pass tests now failing: %s" % (conf["n_passed"], conf["baseline_tests_now_failing"]),
        "command": "tools/confirm_seed.py <worktree> patch.diff demo.py",
    },
    "checks_run": "tools/seed_eval.sh <worktree> patch.diff <ID> (SYMX_REPO=<worktree with patch applied> ./check <ID> --tier quick)",
    "caught_by": [] if caught == "none" else caught.split(","),
    "note": note,
}
json.dump(meta, open(os.path.join(d, "meta.json"), "w"), indent=1)
print("stored", d)
