#!/bin/sh
# usage: seed_eval.sh <scratch-worktree> <patch.diff> <ID> [tier]
# applies the patch in the scratch worktree, runs ./check <ID> against that tree (SYMX_REPO), restores it.
WT="$1"; PATCH="$2"; ID="$3"; TIER="${4:-quick}"
cd "$WT" || exit 9
git apply "$PATCH" || { echo "patch does not apply"; exit 9; }
cd /verif
SYMX_REPO="$WT" ./check "$ID" --tier "$TIER" --no-evidence 2>&1 | grep -v '^claims' | cut -c1-400 | head -${SEED_LINES:-14}
rc=$?
cd "$WT" && git checkout -- svgelements
exit 0
