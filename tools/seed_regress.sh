#!/bin/bash
# regression over /verif/seeded: applies each stored change in a scratch worktree (/var/tmp/wt_reg) and runs its own quick check; prints rc and the number of VIOLATION lines
cd /repo && git worktree add -q /var/tmp/wt_reg HEAD
cd /verif
for d in seeded/*; do
  n=$(basename $d); p=${n%%_*}
  caught=$(python3 -c "import json; print(','.join(json.load(open('$d/meta.json'))['caught_by']))")
  if [ -z "$caught" ]; then echo "$n expected-miss"; continue; fi
  (cd /var/tmp/wt_reg && git apply /verif/$d/patch.diff) || { echo "$n NOAPPLY"; continue; }
  out=$(SYMX_REPO=/var/tmp/wt_reg ./check $p --tier quick --no-evidence 2>&1)
  rc=$?
  v=$(echo "$out" | grep -c "^VIOLATION")
  echo "$n rc=$rc violations=$v"
  (cd /var/tmp/wt_reg && git checkout -q -- svgelements)
done
git -C /repo worktree remove --force /var/tmp/wt_reg
