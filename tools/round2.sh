#!/bin/sh
# usage: round2.sh <ID> [other check IDs to try when the own check misses]
# evaluates /tmp/wt2_<ID>/mut{1,2}.diff against ./check <ID> (quick) and confirms them (suite + demo); prints a summary.
P="$1"; WT=/tmp/wt2_$P
H=$(git -C /repo rev-parse HEAD)
git -C $WT checkout -q --detach $H || exit 9
rm -f $WT/mut_base* $WT/mut_baseline*
for n in 1 2; do
  m=$((n+${OFFSET:-2}))
  for e in diff txt; do cp $WT/mut$n.$e $WT/mut$m.$e; done; cp $WT/mut${n}_demo.py $WT/mut${m}_demo.py
  echo "=== $P mut$n (stored as mut$m)"
  grep '^[-+]' $WT/mut$n.diff | grep -v '^+++\|^---' | cut -c1-160
  (cd $WT && git apply --check mut$n.diff) || { echo "DOES NOT APPLY to HEAD"; continue; }
  cd /verif
  SEED_LINES=400 tools/seed_eval.sh $WT $WT/mut$n.diff $P 2>&1 | grep -E "^VIOLATION|tier=|signature|HARNESS" | head -4 | cut -c1-220
  python3 tools/confirm_seed.py $WT $WT/mut$m.diff $WT/mut${m}_demo.py /tmp/confirm_${P}_$m.json > /tmp/confirm_${P}_$m.log 2>&1
  python3 -c "
import json
d=json.load(open('/tmp/confirm_${P}_$m.json')); print('confirm', d['ok'], 'applies', d['applies'], 'demo clean/mutant', d['demo_clean'][0], d['demo_mutant'][0], 'passed', d['n_passed'], d['baseline_tests_now_failing'])"
done
